def fill(chk, not_yet):
    chk("C01", "exploration",
        "Exact flow conservation max|pi K - pi| <= 1e-9 of the real ParticleGibbsTreeSampler over every start tree of "
        "small instances (n<=3), with K obtained by replaying every outcome of every random draw; both wirings, three "
        "proposals, outliers on/off, thresholds 0/0.5/1, N in {2,3}; Monte-Carlo cross-check with numpy's Generator on "
        "n<=4, N<=10. Exhaustive over random outcomes within each listed instance; bounded instances, not a proof.",
        "pi is the code's own log_p_one (tied to the model by C03); ChoiceRNG's model of numpy draws (cross-checked "
        "statistically); numpy/scipy/rustworkx as installed.",
        "runtime monitoring: exhaustive replay of random draws of the real sampler + exact invariance oracle; Monte-Carlo binomial test",
        "DESIGN.md 4/C01, 3.2")
    chk("C04", "exploration",
        "Exact flow conservation max|pi K - pi| <= 1e-9 of the real DataPointSampler, PruneRegraphSampler and "
        "ParticleGibbsSubtreeSampler over every start tree of small instances (n<=3; n<=4 thorough for the Gibbs moves), "
        "K by replaying every outcome of every random draw. For the subtree move a recomposition of the documented "
        "algorithm from the real conditional-SMC swarm classifies the known finding F7 (block selection) and nothing else.",
        "pi is the code's own log_p_one; ChoiceRNG's model of numpy draws; bounded instances.",
        "runtime monitoring: exhaustive replay of random draws of the real moves + exact invariance oracle",
        "DESIGN.md 4/C04, 5 (F7)")
    chk("C08", "exploration",
        "For every parent state over <=3 (thorough <=4) earlier points, 3 proposals, outlier proposal on/off, permutation "
        "density on/off: log_p over every reference placement sums to 1 (1e-9), exact law of sample() (replay) equals the "
        "reported probabilities, support = reference placements; real SMCSampler under exhaustive replay reproduces "
        "exp(log_p_one+log_pdf) of every compatible tree as expected weight mass (exact importance-sampling identity).",
        "target density from the code on freshly built trees (C03); order counts from the reference model (C09); "
        "normalising constants dropped by the sampler are re-added by a recording subclass.",
        "runtime monitoring: reference enumeration of placements + exhaustive replay of proposal and SMC draws",
        "DESIGN.md 4/C08")
    chk("C09", "exploration",
        "For every forest over <=4 points x every outlier subset (<=5 thorough) and random forests to 7 points: exact law "
        "of RootPermutationDistribution.sample by replay equals the uniform law on the brute-force set of compatible "
        "orders, log_pdf = -log #orders; 8-12 points: membership of sampled orders + independent count.",
        "brute-force enumeration and counting recursion (reference) cross-check each other.",
        "runtime monitoring: exhaustive replay of shuffles vs brute-force linear extensions",
        "DESIGN.md 4/C09")
    for pid in ["C02","C03","C05","C06","C07","C08","C09","C10","C11","C12","C13","C14","C15","C16","C17","C18","C19","C20"]:
        not_yet[pid] = "check under construction in this session (runtime monitor designed in DESIGN.md section 4); not claimed until it runs clean"
