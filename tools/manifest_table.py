def fill(chk, not_yet):
    chk("C01", "exploration",
        "Exact flow conservation max|pi K - pi| <= 1e-9 of the real ParticleGibbsTreeSampler over every start tree of "
        "small instances (n<=3), with K obtained by replaying every outcome of every random draw; both wirings, three "
        "proposals, outliers on/off, thresholds 0/0.5/1, N in {2,3}; Monte-Carlo cross-check with numpy's Generator on "
        "n<=4, N<=10. Exhaustive over random outcomes within each listed instance; bounded instances, not a proof.",
        "pi is the code's own log_p_one (tied to the model by C03); ChoiceRNG's model of numpy draws (cross-checked "
        "statistically); numpy/scipy/rustworkx as installed.",
        "runtime monitoring: exhaustive replay of random draws of the real sampler + exact invariance oracle; Monte-Carlo binomial test",
        "DESIGN.md 4/C01, 3.2")
    for pid in ["C02","C03","C04","C05","C06","C07","C08","C09","C10","C11","C12","C13","C14","C15","C16","C17","C18","C19","C20"]:
        not_yet[pid] = "check under construction in this session (runtime monitor designed in DESIGN.md section 4); not claimed until it runs clean"
