def fill(chk, not_yet):
    chk("C01", "exploration",
        "Exact flow conservation max|pi K - pi| <= 1e-9 of the real ParticleGibbsTreeSampler over every start tree of "
        "small instances (n<=3), with K obtained by replaying every outcome of every random draw; both wirings, three "
        "proposals, outliers on/off, thresholds 0/0.5/1, N in {2,3}, plus call-history configurations (same kernel warmed "
        "under another concentration value that is then changed in place, caches kept); extended-target consistency on "
        "trees of 5-7 points (order density used in the weights vs the observed exact law of the order, per order, across "
        "trees); Monte-Carlo cross-check with numpy's Generator on n<=5, N<=10 (per tree and per shape class). Exhaustive "
        "over random outcomes within each listed instance; bounded instances, not a proof.",
        "pi is the code's own log_p_one (tied to the model by C03); ChoiceRNG's model of numpy draws (cross-checked "
        "statistically); numpy/scipy/rustworkx as installed.",
        "runtime monitoring: exhaustive replay of random draws of the real sampler + exact invariance oracle; Monte-Carlo binomial test",
        "DESIGN.md 4/C01, 3.2")
    chk("C04", "exploration",
        "Exact flow conservation max|pi K - pi| <= 1e-9 of the real DataPointSampler, PruneRegraphSampler and "
        "ParticleGibbsSubtreeSampler over every start tree of small instances (n<=3; n<=4 thorough for the Gibbs moves), "
        "K by replaying every outcome of every random draw; one iteration of the run loop's own sweep (n<=2). For the "
        "subtree move a recomposition of the documented algorithm (block extracted abstractly, real conditional-SMC "
        "swarm) classifies the known finding F7 (block selection) and nothing else.",
        "pi is the code's own log_p_one; ChoiceRNG's model of numpy draws; bounded instances.",
        "runtime monitoring: exhaustive replay of random draws of the real moves + exact invariance oracle",
        "DESIGN.md 4/C04, 5 (F7)")
    chk("C08", "exploration",
        "For every parent state over <=3 (thorough <=4) earlier points, 3 proposals, outlier proposal on/off, permutation "
        "density on/off: log_p over every reference placement sums to 1 (1e-9), exact law of sample() (replay) equals the "
        "reported probabilities, support = reference placements; real SMCSampler under exhaustive replay reproduces "
        "exp(log_p_one+log_pdf) of every compatible tree as expected weight mass (exact importance-sampling identity), "
        "also after a pass under another concentration value (in-place change, caches kept); incremental weights along "
        "the retained path of the real conditional sampler on random trees up to 8 points.",
        "target density from the code on freshly built trees (C03); order counts from the reference model (C09); "
        "normalising constants dropped by the sampler are re-added by a recording subclass.",
        "runtime monitoring: reference enumeration of placements + exhaustive replay of proposal and SMC draws",
        "DESIGN.md 4/C08")
    chk("C09", "exploration",
        "For every forest over <=4 points x every outlier subset (<=5 thorough) and random forests to 7 points: exact law "
        "of RootPermutationDistribution.sample by replay equals the uniform law on the brute-force set of compatible "
        "orders, log_pdf = -log #orders (also pre-order relabelled, shuffled siblings, after a dictionary round trip); 8-12 "
        "points and forests with 257-513 sibling chains: membership of sampled orders, independent count, and a symmetric-"
        "pair monitor (two points exchanged by a symmetry of the tree must not keep one relative order over 60 draws).",
        "brute-force enumeration and counting recursion (reference) cross-check each other; a correct sampler trips the "
        "symmetric-pair monitor with probability < 1e-12 per run.",
        "runtime monitoring: exhaustive replay of shuffles vs brute-force linear extensions",
        "DESIGN.md 4/C09")
    chk("C06", "exploration",
        "rebuild_equal after every edit of generated histories in the samplers' own grammar (SMC placement with dict hop, "
        "data-point move, prune-regraft, subtree extraction/re-attachment with carried outliers, relabel, copy, dict/"
        "pickle round trips) and on the intermediate states the samplers pass through (after pruning, after grafting "
        "before the full update): every clone's vectors, root vector, both densities, ==/hash against a fresh bottom-up "
        "build made with memoisation bypassed; data incl. bit-identical twins and mixed scales (1e-3..1e6); alias guard re-digests source trees and second candidates grafted from the same subtree; the same oracle "
        "as a postcondition of every real sampler's sample_tree. Held on the histories generated, not a proof.",
        "tolerance 1e-8 relative; deviations confined to entries outside the C02 underflow window (band from the "
        "interval reference recursion wider than 1e-9) are counted, not reported - the property's own quantifier.",
        "runtime monitoring: invariant-at-a-hook (rebuild oracle) over generated edit histories",
        "DESIGN.md 4/C06")
    chk("C07", "exploration",
        "tree_wellformed as an icontract postcondition on every Tree mutator/producer, data-conservation postconditions "
        "on every sampler's sample_tree and on the retained path, during generated edit histories, direct sampler calls "
        "on random trees (<=7 points, <=6 children, shuffled siblings) and instrumented run_phyclone_chain runs.",
        "only states at public method boundaries are checked; reads private dictionaries with .get only.",
        "runtime monitoring: icontract postconditions / structural invariant at hooks under generated workloads",
        "DESIGN.md 4/C07, 3.4")
    chk("C15", "exploration",
        "(a) dict / pickle / gzip-file round trips of trees reached in generated histories (index gaps, outlier-only, "
        "relabelled grafts) compared at once and after each of 12 further shared edits; (b) traces of the real "
        "phyclone.run.run over generated configurations: every entry restored, well-formed over all data, log_p_one "
        "recomputed under the entry's alpha, first entry = burn-in result, iter sequence = thinning multiples (prefix "
        "under a time limit).",
        "after a relabel applied to both copies clones are matched by clade (labels are arbitrary ids); 1e-8/1e-9 "
        "relative tolerances; data inside the C02 window.",
        "runtime monitoring: round-trip oracle on generated histories + offline checker over recorded traces",
        "DESIGN.md 4/C15")
    chk("C19", "exploration",
        "Real phyclone.run.run in-process on generated inputs over random points of the CLI cross-product whose value "
        "tables contain every range boundary (single data point, threshold 0/1, particles 1, outlier prob 0/1e-4/0.3/1, "
        "subtree prob 0/1, time limit 0, alpha 1e-6..1e6 ...), every 20th run on a large input (6-12 samples, clusters of "
        "100-140 mutations at ~1000x, |log_p_one| 1e4-1e5), plus forced extreme Gamma draws; no exception; every "
        "entry well-formed over all data with finite log_p_one.",
        "alpha>0, precision>0, print frequency>=1 (model's domain); multi-chain / click entry covered by C18/C20.",
        "runtime monitoring: configuration sweep of the real run loop with trace-entry monitors and boundary injection at the continuous draws",
        "DESIGN.md 4/C19")
    chk("C02", "exploration",
        "Tree.data_log_likelihood and every clone's subtree vector against (a) a brute-force sum over all CCF index "
        "assignments (<=4 clones, G<=5, D<=2; compared wherever the value is above the floor) and (b) an interval "
        "recursion giving the band of values a correct floored implementation may report (exact minus underflow loss .. "
        "exact plus floor injection / FFT noise): random forests to 12 clones, 8 children, 6 top-level clones, D 1-4, "
        "flat/moderate/peaked/real-emission/mixed-scale/twin data, G 3..1201 across the direct/FFT switch, trees built "
        "bottom-up or incrementally (points added one by one, some by way of another clone), related forests evaluated "
        "first (warm caches); finiteness everywhere.",
        "band constants (1e-100 floor, 1e-300 underflow, 1e-10 FFT noise per pairwise step, FFT from 1000 points) "
        "taken from the property statement / pinned code; reference recursion cross-checked by the brute force.",
        "runtime monitoring: reference-model oracle (brute force + interval recursion) over generated forests and data",
        "DESIGN.md 4/C02")
    chk("C03", "exploration",
        "log_p, log_p_one and the fused computation against the FS-CRP density written from the statement (data term "
        "from the reference marginal) for every forest over <=3 (<=4 thorough) points x outlier subsets x 5 alphas x 3 "
        "outlier priors x up to 7 construction histories, random trees to 12 points; == / hash equal across histories, "
        "unequal across different canonical keys.",
        "root-count penalty normaliser frozen from the pinned code (statement fixes it only to 1e-3); data inside the "
        "C02 window (band checked per case).",
        "runtime monitoring: reference-model oracle over enumerated trees and construction histories",
        "DESIGN.md 4/C03")
    chk("C13", "exploration",
        "Recorded parameters of every Beta / Bernoulli / Gamma draw of GammaPriorConcentrationSampler.sample (scripted "
        "auxiliary variable over (0,1), both mixture components) against the Escobar-West formulas for random "
        "(a,b,alpha,K,n); numerical invariance of the kernel assembled from the recorded parameter functions; call site "
        "observed in real runs (K, n counted from the graph; alpha/log alpha after the update; alpha recorded in the "
        "trace).",
        "scipy.stats as installed; 1e-10 floor treated as a numerical guard.",
        "runtime monitoring: draw recorder (parameter proxies with scripted returns) + call-site monitor in real runs",
        "DESIGN.md 4/C13")
    chk("C14", "exploration",
        "Every call of the five memoised entry points (children recursion, pairwise convolution, semi-/fully-adapted "
        "proposal caches, cached new-clone tree) during instrumented chain runs with concentration updates and the run "
        "loop's clearing, and synthetic key-scheme histories (all child orders, duplicates, one-ulp neighbours, "
        "alternating alpha with/without clearing, equal parents via different objects), is shadowed by the wrapped "
        "original on the same arguments at that moment; cached values re-digested on later hits; cache keys of 3e5 (quick) / "
        "1e6 (thorough) distinct likelihood arrays per process collected through the memoisation's own key objects, any two "
        "different arrays with equal keys played through the memoised function. Minimum hit counts per cache or the run is "
        "inconclusive.",
        "one grid shape per process (the property's quantifier); arrays compared above 1e-60 of the row peak at 1e-9 "
        "relative; proposal objects compared by support / log-probabilities / sampling vector.",
        "runtime monitoring: shadow execution of memoised functions against their unmemoised originals",
        "DESIGN.md 4/C14")
    chk("C05", "exploration",
        "Every cell of the likelihood grids loaded from generated input files (depth 0..1e6, alt in {0,d}, major 1-8, "
        "minor 0..major, normal 1-3, tumour content incl. 1.0/1e-3, error rate 1e-6..0.49, both densities, precision "
        "0.1..1e5, grids 2..201, clustered or not) against an independent genotype-mixture reference built on "
        "scipy.stats pmfs; density sums to one over all alternate counts (depth<=300); cluster = sum of members; "
        "outlier terms = size*log p, size*log(1-p), (0,0) for p=0, with the loss probability given globally, per cluster, or "
        "assigned by the program (low / high value, with or without a chrom column).",
        "reference genotype enumeration written from the property statement; tolerance 1e-6+1e-10*depth in log space.",
        "runtime monitoring: reference-model oracle on generated input files and direct density calls",
        "DESIGN.md 4/C05")
    chk("C17", "exploration",
        "load_data on generated tables containing every documented filter class (missing in a sample, zero major CN in "
        "a sample, duplicated, zero everywhere), numeric/string ids, tab/comma, optional columns present/absent, unused "
        "annotation columns with blank cells, "
        "cluster files: kept set, sorted order, idx 0..n-1, per-sample rows against the emission reference (defaults "
        "1.0 / 0.001), MajorCopyNumberError for major<minor; 5 row permutations of each table give bit-identical data.",
        "the two table classes the property excludes are never generated.",
        "runtime monitoring: reference filter + metamorphic (row permutation) oracle over generated tables",
        "DESIGN.md 4/C17")
    chk("C10", "exploration",
        "get_map_node_ccfs_and_clonal_prev_dicts on generated trees: values on the CCF grid, per-sample feasibility "
        "(clone >= sum of children, top-level sum <= 1), objective value equal to a brute-force maximum (<=4 clones, G<=6) "
        "or an independent max-plus recursion (<=10 clones, 8 children, G 11/21/101, flat all-tie data included; <=5 clones "
        "on fine grids 257..1001), "
        "prevalence = ccf - children >= -1e-12.",
        "ties accepted (only the attained value is compared); the two reference maximisers cross-check each other.",
        "runtime monitoring: reference-model oracle (brute force / max-plus recursion) over generated trees",
        "DESIGN.md 4/C10")
    chk("C11", "exploration",
        "Outputs of write_map_results (both modes) and write_topology_report (+archive, top_trees none/1/2/3) on synthetic "
        "traces (1-4 chains in random insertion order, unequal lengths, repeated / relabelled / sibling-shuffled copies of "
        "the same tree, exact ties) against a reference summariser grouping entries by canonical key: maximum, counts, "
        "scores, pointers, ranking, archive membership and member/row consistency.",
        "scores read back from TSV compared at 1e-12 relative (text round trip); chain 0 always present.",
        "runtime monitoring: offline checker over recorded traces against a reference summariser",
        "DESIGN.md 4/C11")
    chk("C12", "exploration",
        "TABLE+TREE written by map, topology-report archive and consensus on synthetic traces whose best / most frequent "
        "entry is a designated corner tree (single clone, all outliers, one outlier, all-but-one outliers, deep chain, "
        "many top-level clones) or a random tree, clustered (integer ids, 1-3 mutations per cluster) or not, 1-3 samples: "
        "every (mutation, sample) once, clone ids in Newick or -1, clusters share a clone, per-clone ccf/prev, -1/-1 for "
        "outliers, command completes; every topology of the archive is read; traces of related topologies; the CCFs a table "
        "lists must attain the maximum summed log-likelihood on the table's own tree (independent max-plus recursion over "
        "the trace's data).",
        "ties between CCF assignments accepted (value compared).",
        "runtime monitoring: offline checker of written result files over generated traces",
        "DESIGN.md 4/C12")
    chk("C16", "exploration",
        "get_consensus_tree + get_tree_from_consensus_graph and the consensus command's files on synthetic traces built "
        "from structured mixtures (clades fully covered by majority-supported children - one, two -, nested conflicts, "
        "nothing retained, identical trees, dominant tree, outliers) x thresholds {0.5..1.0} x both weightings against "
        "reference supports: clade set = clades with support strictly above the threshold, valid tree, uncovered -> -1.",
        "a clade whose support is within 1e-9 of the threshold may or may not be retained (the property's quantifier); the command must still complete and treat the clear cases right.",
        "runtime monitoring: reference-model oracle (clade supports) over generated traces",
        "DESIGN.md 4/C16")
    chk("C18", "exploration",
        "Real `phyclone run --seed S` subprocesses (3 configurations quick, 15 thorough: proposal x outliers x clustered x "
        "1/2/4 chains), each under a reference environment and perturbed ones - PYTHONHASHSEED 1/12345/random, one core "
        "(taskset), nice, concurrent load, and sitecustomize failpoints that hold chain k's return until named chains "
        "have finished (ascending / descending completion order forced): per chain exact equality of iter, alpha bits, "
        "log_p_one bits, canonical tree and labels; a longer 3-chain run on branching data under all / one / two cores; runs "
        "on grids 300 / 501 under a failpoint that perturbs every clock reading (seeded drift, 5 seeds); "
        "child interpreters with different PYTHONHASHSEED running the same seeded chain on string-named data; in-process "
        "pairs of the same seeded chain under different ambient random state (numpy global state, random module). "
        "Evidence lists completion orders and hash seeds actually observed; a multi-chain configuration with a single "
        "observed order is inconclusive.",
        "time entries excluded; same machine and libraries across compared runs; schedules explored are those the "
        "failpoints and the OS produced, not all.",
        "runtime monitoring: differential traces of real processes under perturbed schedules / hash seeds (failpoint-ordered chain completion)",
        "DESIGN.md 4/C18")
    chk("C20", "fault_enumeration",
        "Every byte prefix of trace files written by the real writer from real chain runs (1 chain unclustered, 3 chains "
        "clustered; thorough +2; a 1100-entry trace at a stride of prefixes plus head and tail in the quick tier, every "
        "prefix in the thorough tier) is read by map, consensus and topology-report in-process: the reader raises or its "
        "output files are byte-identical to the complete file's. Plus real `phyclone run` processes whose final write is "
        "cut at byte N by a failpoint (os._exit / ENOSPC), read back by the real CLI (non-zero exit or identical output; "
        "the run itself must not exit 0); plus multi-chain runs interrupted after k of n chains completed (a chain's worker "
        "killed or raising, ordered by failpoint), whatever is left at the output path read by the three summary commands, "
        "which must fail. Exhaustive over byte crash points of the traces used.",
        "single gzip stream written at the end of the run; a cut inside the 8-byte gzip trailer that still yields the "
        "complete content is accepted.",
        "runtime monitoring with fault injection: exhaustive truncation points + write-failure failpoints in real processes",
        "DESIGN.md 4/C20")
    for pid in ["C02","C03","C05","C06","C07","C08","C09","C10","C11","C12","C13","C14","C15","C16","C17","C18","C19","C20"]:
        not_yet[pid] = "check under construction in this session (runtime monitor designed in DESIGN.md section 4); not claimed until it runs clean"
