#!/bin/bash
# tools/mutant_patch.sh <name> <patch.diff> -- <check ids...> : scratch export of /repo HEAD + patch, run quick checks
name=$1; patch=$(readlink -f $2); shift 3
cd "$(dirname "$(readlink -f "$0")")/.." || exit 2
dst=/tmp/mut/$name; rm -rf $dst; mkdir -p $dst
git -C /repo archive HEAD | tar -x -C $dst
( cd $dst && git apply $patch ) || { echo "patch does not apply"; rm -rf $dst; exit 3; }
export VERIF_REPO=$dst VERIF_EVIDENCE_DIR=$dst/_ev VERIF_REPLAY_DIR=$dst/_ev; mkdir -p $dst/_ev
for id in "$@"; do
  out=$(./check $id --tier ${TIER:-quick} 2>&1); rc=$?
  echo "MUTANT $name $id rc=$rc :: $(echo "$out" | grep -E 'HELD|VIOLATION|INCONCLUSIVE|violation:' | head -3 | cut -c1-220 | tr '\n' ' ')"
done
rm -rf $dst
