#!/bin/bash
# tools/handle_seed.sh <PROP> <tag> [extra check ids...] : run target (+extra) quick checks against /tmp/wt_<PROP>_<tag>, start independent confirmation
p=$1; tag=$2; shift 2
cd "$(dirname "$(readlink -f "$0")")/.." || exit 2
wt=/tmp/wt_${p}_${tag}
( cd $wt && git diff --stat | tail -1 )
( tools/confirm_seed.sh $wt ${p}_${tag} > /tmp/seedwork/confirm_${p}_${tag}.log 2>&1 & )
tools/try_seed.sh $wt $p "$@"
