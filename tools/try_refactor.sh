#!/bin/bash
# tools/try_refactor.sh <tree> : all 20 quick checks against a behaviour-preserving refactoring (any rc=1 is a false alarm)
tree=$1
cd "$(dirname "$(readlink -f "$0")")/.." || exit 2
export VERIF_REPO=$tree VERIF_EVIDENCE_DIR=$(mktemp -d /tmp/verif_ref_ev.XXXXXX)
export VERIF_REPLAY_DIR=$VERIF_EVIDENCE_DIR
for id in C01 C02 C03 C04 C05 C06 C07 C08 C09 C10 C11 C12 C13 C14 C15 C16 C17 C18 C19 C20; do
  out=$(./check $id --tier quick 2>&1); rc=$?
  echo "REFACTOR $(basename $tree) $id rc=$rc :: $(echo "$out" | grep -E 'VIOLATION|INCONCLUSIVE|violation:' | head -3 | cut -c1-260 | tr '\n' ' ')"
done
echo "replays in $VERIF_EVIDENCE_DIR"
