#!/bin/bash
# tools/handle_seed2.sh <PROP> <tag> [extra check ids...] : like handle_seed.sh but runs the checks against an export of /repo HEAD
# with the agent's patch applied (the agent's worktree may be based on an older HEAD)
p=$1; tag=$2; shift 2
cd "$(dirname "$(readlink -f "$0")")/.." || exit 2
wt=/tmp/wt_${p}_${tag}
[ -f seeded/${p}_${tag}/patch.diff ] || ( tools/confirm_seed.sh $wt ${p}_${tag} > /tmp/seedwork/confirm_${p}_${tag}.log 2>&1 & )
tools/mutant_patch.sh ${p}_${tag} $wt/seed_out/patch.diff -- $p "$@"
