#!/bin/bash
# tools/sweep.sh <tier> "<seeds>" [ids...]  -- runs checks on the current tree, prints one line per run; evidence goes to a scratch dir
cd "$(dirname "$(readlink -f "$0")")/.." || exit 2
tier=$1; seeds=$2; shift 2
ids=${@:-C01 C02 C03 C04 C05 C06 C07 C08 C09 C10 C11 C12 C13 C14 C15 C16 C17 C18 C19 C20}
export VERIF_EVIDENCE_DIR=$(mktemp -d /tmp/verif_sweep_ev.XXXXXX)
export VERIF_REPLAY_DIR=$VERIF_EVIDENCE_DIR
for s in $seeds; do
  for id in $ids; do
    t0=$(date +%s)
    out=$(VERIF_SEED=$s ./check $id --tier $tier 2>&1); rc=$?
    echo "seed=$s $id rc=$rc $(( $(date +%s) - t0 ))s :: $(echo "$out" | grep -E 'HELD|VIOLATION|INCONCLUSIVE|KNOWN-FINDING|violation:' | head -4 | tr '\n' ' ')"
  done
done
echo "evidence+replays in $VERIF_EVIDENCE_DIR"
