#!/usr/bin/env python3
"""Prints the markdown table of seeded changes and which checks catch them (from seeded/*/meta.json, detection.json)."""
import json, os, sys
root = os.path.join(os.path.dirname(os.path.dirname(os.path.abspath(__file__))), "seeded")
print("| seed | property | what the change does (needs) | checks that report it (quick tier) | not reported by |")
print("|---|---|---|---|---|")
for sid in sorted(os.listdir(root)):
    d = os.path.join(root, sid)
    try:
        m = json.load(open(os.path.join(d, "meta.json")))
    except Exception:
        continue
    det = {}
    if os.path.exists(os.path.join(d, "detection.json")):
        det = json.load(open(os.path.join(d, "detection.json")))
    hit = [k for k, v in det.items() if v["rc"] == 1]
    miss = [k for k, v in det.items() if v["rc"] == 0]
    other = [k for k, v in det.items() if v["rc"] not in (0, 1)]
    summ = " ".join(str(m.get("summary", "")).split())[:170]
    needs = " ".join(str(m.get("needs", "")).split())[:150]
    print("| %s | %s | %s (%s) | %s | %s%s |" % (sid, m.get("property"), summ.replace("|", "/"), needs.replace("|", "/"),
                                          ", ".join(hit) or "-", ", ".join(miss) or "-",
                                          (" ; inconclusive: " + ", ".join(other)) if other else ""))
