#!/bin/bash
# tools/try_seed.sh <tree> <ids...> : run quick checks against another tree (VERIF_REPO), scratch evidence
tree=$1; shift
cd "$(dirname "$(readlink -f "$0")")/.." || exit 2
export VERIF_REPO=$tree VERIF_EVIDENCE_DIR=$(mktemp -d /tmp/verif_seed_ev.XXXXXX)
export VERIF_REPLAY_DIR=$VERIF_EVIDENCE_DIR
for id in "$@"; do
  out=$(./check $id --tier ${TIER:-quick} 2>&1); rc=$?
  echo "SEED $(basename $tree) $id rc=$rc :: $(echo "$out" | grep -E 'HELD|VIOLATION|INCONCLUSIVE|violation:' | head -4 | cut -c1-200 | tr '\n' ' ')"
done
rm -rf $VERIF_EVIDENCE_DIR
