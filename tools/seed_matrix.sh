#!/bin/bash
# tools/seed_matrix.sh [seed ids...] : for each /verif/seeded/<id>, apply patch.diff to a scratch export of /repo HEAD and run
# the target property's quick check (plus any listed in seeded/<id>/also.txt); writes seeded/<id>/detection.json
cd "$(dirname "$(readlink -f "$0")")/.." || exit 2
ids=${@:-$(ls seeded)}
for sid in $ids; do
  [ -f seeded/$sid/patch.diff ] || continue
  dst=/tmp/seedmx_$sid; rm -rf $dst; mkdir -p $dst
  git -C /repo archive HEAD | tar -x -C $dst
  ( cd $dst && git apply /verif/seeded/$sid/patch.diff ) || { echo "MATRIX $sid: patch does not apply to current HEAD"; rm -rf $dst; continue; }
  prop=$(/venv/bin/python -c "import json;print(json.load(open('seeded/$sid/meta.json'))['property'])")
  also=$(cat seeded/$sid/also.txt 2>/dev/null)
  export VERIF_REPO=$dst VERIF_EVIDENCE_DIR=$dst/_ev VERIF_REPLAY_DIR=$dst/_ev; mkdir -p $dst/_ev
  res="{"
  for id in $prop $also; do
    out=$(./check $id --tier quick 2>&1); rc=$?
    first=$(echo "$out" | grep -m1 'violation:' | sed 's/^ *violation: //' | cut -c1-180 | tr '"' "'")
    echo "MATRIX $sid $id rc=$rc :: $first"
    res="$res\"$id\": {\"rc\": $rc, \"first_violation\": \"$first\"},"
  done
  res="${res%,}}"
  echo "$res" > seeded/$sid/detection.json
  unset VERIF_REPO VERIF_EVIDENCE_DIR VERIF_REPLAY_DIR
  rm -rf $dst
done
