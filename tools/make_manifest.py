#!/usr/bin/env python3
"""Regenerates MANIFEST.json from the table below (kept in one place so the manifest is always valid)."""
import json, os, sys

HERE = os.path.dirname(os.path.dirname(os.path.abspath(__file__)))
BASELINE = ("cd /repo && env -u PHYCLONE_VERIF /venv/bin/python -m pytest -ra -q -p no:cacheprovider --timeout=900 "
            "--continue-on-collection-errors")

CHECKS = {}
NOT_YET = {}


def chk(pid, category, text, note, technique, design):
    CHECKS[pid] = dict(category=category, text=text, note=note, technique=technique, design=design)


sys.path.insert(0, os.path.join(HERE, "tools"))
from manifest_table import fill  # noqa

fill(chk, NOT_YET)

man = {
    "version": 1,
    "setup_cmd": "/venv/bin/python -m pip install -q --no-index --find-links /opt/veriftools/wheels --target /verif/.deps icontract deal jsonschema",
    "hooks": {
        "guard": "PHYCLONE_VERIF",
        "enable": "no source hooks in /repo: monitors are attached from outside (monkeypatching, icontract invariants, ChoiceRNG, sitecustomize under /verif/hooks on PYTHONPATH of spawned workers, inert unless PHYCLONE_VERIF=1); checks import /repo's working tree directly (PYTHONPATH), nothing is built",
        "baseline_off_cmd": BASELINE,
        "source_commits": [],
        "add_only": True,
    },
    "engines": [
        {"name": "choice-replay", "path": "vlib/choice_rng.py", "serves_properties": ["C01", "C04", "C08", "C09"],
         "kind_free_text": "exhaustive replay of every outcome of every random draw of the real samplers (exact transition rows / exact sampling laws)"},
        {"name": "refmodel", "path": "vlib/refmodel.py", "serves_properties": ["C02", "C03", "C05", "C06", "C09", "C10", "C14", "C15"],
         "kind_free_text": "naive reference implementations written from the property statements, used as runtime oracles"},
    ],
    "checks": [],
    "not_applicable": [],
    "notes": "Runtime monitoring only: every verdict comes from an oracle observing executions of the real code in /repo. See DESIGN.md.",
}
for pid in sorted(CHECKS):
    c = CHECKS[pid]
    man["checks"].append({
        "property_id": pid,
        "quick_cmd": "./check %s --tier quick" % pid,
        "thorough_cmd": "./check %s --tier thorough" % pid,
        "evidence_file": "/verif/evidence/%s.json" % pid,
        "replay_cmd_template": "./check %s --replay {path}" % pid,
        "engine": "runtime-monitoring",
        "level_claimed": {"category": c["category"], "text": c["text"], "design_ref": c["design"]},
        "level_note": c["note"],
        "technique": c["technique"],
    })
for pid in sorted(NOT_YET):
    if pid in CHECKS:
        continue
    man["not_applicable"].append({"property_id": pid, "reason": NOT_YET[pid]})
with open(os.path.join(HERE, "MANIFEST.json"), "w") as fh:
    json.dump(man, fh, indent=1)
    fh.write("\n")
try:
    sys.path.insert(0, os.path.join(HERE, ".deps"))
    import jsonschema
    jsonschema.validate(man, json.load(open("/root/.vp/MANIFEST.schema.json")))
    print("MANIFEST valid:", len(man["checks"]), "checks,", len(man["not_applicable"]), "not claimed")
except ImportError:
    print("jsonschema unavailable; not validated")
