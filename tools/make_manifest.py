#!/usr/bin/env python3
"""Regenerates MANIFEST.json from the table below (kept in one place so the manifest is always valid)."""
import json, os, sys

HERE = os.path.dirname(os.path.dirname(os.path.abspath(__file__)))
BASELINE = ("cd /repo && env -u PHYCLONE_VERIF /venv/bin/python -m pytest -ra -q -p no:cacheprovider --timeout=900 "
            "--continue-on-collection-errors")

CHECKS = {}
NOT_YET = {}


def chk(pid, category, text, note, technique, design):
    CHECKS[pid] = dict(category=category, text=text, note=note, technique=technique, design=design)


sys.path.insert(0, os.path.join(HERE, "tools"))
from manifest_table import fill  # noqa

fill(chk, NOT_YET)

# additions of rounds e / f (appended to the coverage text of the table)
ADDED = {
    "C01": " Also: single-particle configurations; N=3 with unequal first-generation weights at several concentrations; the relative-ESS boundary (threshold 1, equal weights); every replayed path starts from a cold memoisation state.",
    "C04": " Also: sequences of the real moves on one tree object with every candidate density recomputed on a from-scratch rebuild; start trees named in pre-order; single-particle configurations.",
    "C02": " Also: trees built by the prune-regraft pattern (one subtree grafted into two candidates, the other edited); forests of 258-330 clones.",
    "C03": " Also: data sets mixing points with and without an outlier prior; forests with 102-150 top-level clones; a history assembled from two separately built and relabelled parts with overlapping clone names; mixed-scale data; trees of 258-330 clones.",
    "C05": " Also: cluster files that list mutations the loader drops (size = what the file lists); grids to 301.",
    "C08": " Also: data points with outlier prior 0 (no prior term) under an outlier-proposing kernel.",
    "C09": " Also: log_pdf on trees with gaps in the internal node positions (after cutting / grafting / dictionary round trips); the order the real whole-tree and subtree samplers hand to their conditional SMC pass (replayed up to the start of the pass): uniform over the compatible orders of the tree of the pass.",
    "C10": " Also: the same Tree object summarised three times (last answer examined); the call must leave the tree's digest unchanged; trees of 258-330 clones.",
    "C11": " Also: non-ASCII identifiers; top-trees cuts at 2..101 on long traces; traces of 700-1100 entries per chain with 270-330 distinct topologies; traces in which every record of one topology scores minus infinity.",
    "C12": " Also: traces split exactly half and half between conflicting topologies (consensus must complete); trees of 258-330 clones.",
    "C13": " Also: long-lived sampler objects that served other (K, n) before; the value handed to sample() must be the concentration in force before the update; n up to 3e5.",
    "C14": " Also: every other cache found in the package is cleared before a reference is computed; a parent particle whose tree is re-assigned between two uses; histories of 6000-20000 distinct argument lists with 2-4 children (eviction, re-request, cached pairwise results fed back, occasional clears).",
    "C15": " Also: restored copies parked untouched and re-compared after later restorations; a dictionary must not change when the tree it was taken from is edited; all entries of a run trace restored before any is examined; histories on trees of 258-330 clones.",
    "C16": " Also: pre-clustered traces (some with a cluster that has no data point) through C12's table oracle; traces of 270-400 entries.",
    "C17": " Also: per-row tumour content, columns in any order, CRLF, minimal / shuffled cluster files, inconsistent copy numbers in dropped mutations; identifiers with parser-significant characters and names that spell missing-value tokens (NA, null, None ...); tables of 270-330 mutations.",
    "C18": " Also: run seeds 0 and 2^32+5; assertions off (PYTHONOPTIMIZE); chains of one run executed one after another in one process in several orders; the same seeded many-clone chain three times in one process.",
    "C19": " Also: loss-probability options (assigned with / without chrom column, user column, low / high values), print frequency, 300 iterations or particles on tiny inputs, 300 subtree-only iterations over shallow data at concentration 20 / 100.",
    "C20": " Also: all three summary commands on whatever a failed write leaves (its chains and entries read by the harness must be those of the complete run); cumulative fault position over all writes of a pre-clustered run; the complete file is read successfully at the very path that is then cut short; a prefix counts as complete only if it decompresses independently to the whole pickled content.",
    "C06": " Histories also start from trees of 258-330 clones, include the two-step clone creation with the state in between, run partly with assertions off (python -O); the edited tree must hold the assignment it was given.",
    "C07": " Histories also start from trees of 258-330 clones; shards of the histories and sampler calls run with assertions off (python -O, icontract conditions forced on).",
}
for _pid, _txt in ADDED.items():
    CHECKS[_pid]["text"] += _txt

man = {
    "version": 1,
    "setup_cmd": "/venv/bin/python -m pip install -q --no-index --find-links /opt/veriftools/wheels --target /verif/.deps icontract deal jsonschema",
    "hooks": {
        "guard": "PHYCLONE_VERIF",
        "enable": "no source hooks in /repo: monitors are attached from outside (monkeypatching, icontract invariants, ChoiceRNG, sitecustomize under /verif/hooks on PYTHONPATH of spawned workers, inert unless PHYCLONE_VERIF=1); checks import /repo's working tree directly (PYTHONPATH), nothing is built",
        "baseline_off_cmd": BASELINE,
        "source_commits": [],
        "add_only": True,
    },
    "engines": [
        {"name": "choice-replay", "path": "vlib/choice_rng.py", "serves_properties": ["C01", "C04", "C08", "C09"],
         "kind_free_text": "exhaustive replay of every outcome of every random draw of the real samplers (exact transition rows / exact sampling laws)"},
        {"name": "refmodel", "path": "vlib/refmodel.py", "serves_properties": ["C02", "C03", "C05", "C06", "C09", "C10", "C14", "C15"],
         "kind_free_text": "naive reference implementations written from the property statements, used as runtime oracles"},
    ],
    "checks": [],
    "not_applicable": [],
    "notes": "Runtime monitoring only: every verdict comes from an oracle observing executions of the real code in /repo. See DESIGN.md.",
}
for pid in sorted(CHECKS):
    c = CHECKS[pid]
    man["checks"].append({
        "property_id": pid,
        "quick_cmd": "./check %s --tier quick" % pid,
        "thorough_cmd": "./check %s --tier thorough" % pid,
        "evidence_file": "/verif/evidence/%s.json" % pid,
        "replay_cmd_template": "./check %s --replay {path}" % pid,
        "engine": "runtime-monitoring",
        "level_claimed": {"category": c["category"], "text": c["text"], "design_ref": c["design"]},
        "level_note": c["note"],
        "technique": c["technique"],
    })
for pid in sorted(NOT_YET):
    if pid in CHECKS:
        continue
    man["not_applicable"].append({"property_id": pid, "reason": NOT_YET[pid]})
with open(os.path.join(HERE, "MANIFEST.json"), "w") as fh:
    json.dump(man, fh, indent=1)
    fh.write("\n")
try:
    sys.path.insert(0, os.path.join(HERE, ".deps"))
    import jsonschema
    jsonschema.validate(man, json.load(open("/root/.vp/MANIFEST.schema.json")))
    print("MANIFEST valid:", len(man["checks"]), "checks,", len(man["not_applicable"]), "not claimed")
except ImportError:
    print("jsonschema unavailable; not validated")
