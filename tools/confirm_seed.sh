#!/bin/bash
# tools/confirm_seed.sh <worktree-with-seed_out> <seed-id>  : confirm a seeded change independently and store it under /verif/seeded/<seed-id>/
wt=$1; sid=$2
cd "$(dirname "$(readlink -f "$0")")/.." || exit 2
work=/tmp/confirm_$sid; rm -rf $work; mkdir -p $work/clean $work/patched
git -C /repo archive HEAD | tar -x -C $work/clean
git -C /repo archive HEAD | tar -x -C $work/patched
( cd $work/patched && git apply $wt/seed_out/patch.diff ) || { echo "CONFIRM $sid: patch does not apply"; exit 1; }
( cd $work && PYTHONPATH=$work/clean timeout 600 /venv/bin/python $wt/seed_out/demo.py > $work/demo_clean.log 2>&1 ); rc_clean=$?
( cd $work && PYTHONPATH=$work/patched timeout 600 /venv/bin/python $wt/seed_out/demo.py > $work/demo_patched.log 2>&1 ); rc_patched=$?
( cd $work/patched && PYTHONPATH=$work/patched /venv/bin/python -m pytest -q -p no:cacheprovider --timeout=900 --continue-on-collection-errors phyclone/tests > $work/tests.log 2>&1 )
summary=$(tail -1 $work/tests.log)
echo "CONFIRM $sid: demo clean rc=$rc_clean patched rc=$rc_patched tests: $summary"
if [ $rc_clean -eq 0 ] && [ $rc_patched -eq 1 ] && echo "$summary" | grep -q "85 passed"; then
  mkdir -p seeded/$sid
  cp $wt/seed_out/patch.diff $wt/seed_out/demo.py seeded/$sid/
  /venv/bin/python - "$wt/seed_out/meta.json" "seeded/$sid/meta.json" "$summary" <<'PY'
import json, sys
src, dst, summary = sys.argv[1:4]
try:
    m = json.load(open(src))
except Exception as e:
    m = {"note": "agent meta unreadable: %r" % e}
m["confirmed_by_main"] = {"demo_on_clean_export_rc": 0, "demo_on_patched_export_rc": 1,
                          "test_suite_on_patched_export": summary,
                          "how": "tools/confirm_seed.sh: git archive HEAD of /repo twice, git apply patch.diff in one, demo.py against both, full pytest run in the patched one"}
json.dump(m, open(dst, "w"), indent=1)
PY
  echo "CONFIRM $sid: stored"
else
  echo "CONFIRM $sid: NOT stored"; tail -5 $work/demo_clean.log; tail -5 $work/demo_patched.log
fi
rm -rf $work
