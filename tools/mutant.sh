#!/bin/bash
# tools/mutant.sh <name> <file-relative-to-repo> <python-regex-or-literal old> <new> -- <check ids...>
# Makes a scratch copy of /repo (sources only), applies one literal replacement, runs the named quick checks against it
# with VERIF_REPO, prints one line per check, removes the copy.  Evidence / replays go to a scratch dir.
name=$1; file=$2; old=$3; new=$4; shift 5
cd "$(dirname "$(readlink -f "$0")")/.." || exit 2
dst=/tmp/mut/$name; rm -rf $dst; mkdir -p $dst
rsync -a --exclude .git --exclude '__pycache__' /repo/ $dst/
/venv/bin/python - "$dst/$file" "$old" "$new" <<'PY' || { echo "mutation did not apply"; rm -rf $dst; exit 3; }
import sys
p, old, new = sys.argv[1:4]
s = open(p).read()
if s.count(old) != 1:
    print("pattern occurs %d times" % s.count(old)); sys.exit(1)
open(p, "w").write(s.replace(old, new))
PY
export VERIF_REPO=$dst VERIF_EVIDENCE_DIR=$dst/_ev VERIF_REPLAY_DIR=$dst/_ev
mkdir -p $dst/_ev
for id in "$@"; do
  out=$(./check $id --tier ${TIER:-quick} 2>&1); rc=$?
  echo "MUTANT $name $id rc=$rc :: $(echo "$out" | grep -E 'HELD|VIOLATION|INCONCLUSIVE|violation:' | head -3 | cut -c1-220 | tr '\n' ' ')"
done
rm -rf $dst
