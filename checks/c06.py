"""C06 -- incrementally maintained likelihoods equal a from-scratch rebuild (and no edit leaks into another tree).

Monitor: after every edit of generated histories in the samplers' grammar (vlib.edits), rebuild_equal compares every
clone's cached vectors, the virtual root's vector, both joint densities and ==/hash with a tree freshly built from the
abstract form; an alias guard re-digests the source trees of the last edits.
"""


def run(ctx):
    quick = ctx.tier == "quick"
    shards = 16
    count = 20 if quick else 600
    steps = 60 if quick else 120
    ctx.rule = ("%d generated edit histories x %d steps in the samplers' grammar (SMC placement with dict hop, data-point "
                "move, prune-regraft, subtree extraction/re-attachment with carried outliers, relabel, copy, dict and "
                "pickle round trips), n<=8 points, 1-3 samples, grids 3-21, six data kinds incl. bit-identical twins and mixed scales 1e-3..1e6; rebuild (memoisation bypassed) compared after every "
                "edit; distinct = (operation, resulting canonical tree)" % (shards * count, steps))
    ctx.assumptions = ["tolerance 1e-8 relative covers the rounding drift of repeated in-place add/remove",
                       "data inside the underflow window of C02 (moderate dynamic range)"]
    tasks = [{"seed": ctx.seed, "shard": i, "count": count, "steps": steps, "nmax": 8, "big": 1 if quick else 4, "big_steps": 20, "monitors": ["rebuild"]}
             for i in range(shards)]
    ctx.map("vlib.histrun", "history_task", tasks, timeout=3000)
    # the same with assert statements switched off (python -O): edits must not depend on side effects of assertions
    otasks = [dict(t, shard=100 + t["shard"], count=max(4, t["count"] // 5), big=0) for t in tasks[:4 if quick else 16]]
    ctx.map("vlib.histrun", "history_task", otasks, timeout=3000, python_flags=("-O",))
    # (b) the real samplers: rebuild_equal as a postcondition of every sample_tree (direct calls and chain runs)
    tasks = [{"seed": ctx.seed, "shard": i, "count": 8 if quick else 120, "moves": 8, "own": "C06"} for i in range(shards)]
    ctx.map("checks.c07", "sampler_task", tasks, timeout=3000)
    tasks = [{"seed": ctx.seed, "shard": i, "count": 3 if quick else 30, "iters": 5 if quick else 10, "own": "C06"}
             for i in range(shards)]
    ctx.map("checks.c07", "chain_task", tasks, timeout=3000)
    if ctx.counters.get("boundary_rebuild", 0) < 200:
        ctx.inconc("fewer than 200 sampler-boundary rebuild comparisons")
    if ctx.counters.get("rebuild_evaluations", 0) < 1000:
        ctx.inconc("fewer than 1000 rebuild comparisons")
