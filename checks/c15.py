"""C15 -- trees survive serialisation; trace entries are self-consistent.

(a) for trees reached in generated edit histories: from_dict(to_dict()) directly, through pickle and through a gzip file
    gives an equivalent tree (clades, outliers, labels, per-clone vectors, densities, last-edited clone), and the same
    further edit script applied to original and restored copy keeps them equivalent;
(b) traces written by the real phyclone.run.run for generated configurations: each entry restores to a well-formed tree
    over all data whose log_p_one recomputed under the entry's alpha equals the recorded value; first entry = the tree
    burn-in returned; iter values are [0] + multiples of thin (a prefix under a time limit).
"""

import numpy as np

from vlib import gen


def run(ctx):
    from checks import c19

    quick = ctx.tier == "quick"
    shards = 16
    ctx.rule = ("(a) generated edit histories (see C06): restored copies via dict / pickle / gzip trace file at random "
                "points, compared at once and after each of the next 12 shared edits; (b) real phyclone.run.run on "
                "generated TSV inputs over iterations x thinning 1-4 x burn-in 1-3 x time limit inf/0 x concentration "
                "update on/off x 1-2 chains, every trace entry restored and re-scored; distinct = (op, tree) / run config")
    ctx.assumptions = ["likelihood equalities on data inside the underflow window of C02",
                       "1e-8 relative tolerance on vectors, 1e-9 relative on recorded log_p_one"]
    tasks = [{"seed": ctx.seed, "shard": i, "count": 8 if quick else 120, "steps": 60 if quick else 120, "nmax": 8, "big": 1 if quick else 4, "big_steps": 20,
              "monitors": ["serial"]} for i in range(shards)]
    ctx.map("vlib.histrun", "history_task", tasks, timeout=3000)
    # the same with assert statements switched off (python -O)
    otasks = [dict(t, shard=100 + t["shard"], count=max(3, t["count"] // 4), big=0) for t in tasks[:4 if quick else 16]]
    ctx.map("vlib.histrun", "history_task", otasks, timeout=3000, python_flags=("-O",))
    c19.run_configs(ctx, n_runs=48 if quick else 4000, focus="trace", chains=not quick or True)
    for k, m in (("serial_roundtrips", 200), ("serial_followup_evaluations", 500), ("trace_entries_checked", 100)):
        if ctx.counters.get(k, 0) < m:
            ctx.inconc("monitor %s evaluated only %d times" % (k, ctx.counters.get(k, 0)))
