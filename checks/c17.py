"""C17 -- input loading is order-independent and filters exactly as documented.

Observed: phyclone.data.pyclone.load_data(file, ...) on generated tables with every filter case.  Oracle: reference
filter (kept <=> every sample has exactly one row with a positive major copy number), sorted identifiers, idx 0..n-1,
one likelihood row per sample in sorted sample order (each compared with the C05 reference), documented defaults,
both separators, cluster files; 5 random row permutations of every table must give bit-identical arrays.
"""

import os
import shutil
import tempfile

import numpy as np

from vlib import inputs, refmodel


def gen_table(rng, c, many=False):
    """Rows + the expected kept set.  Mutation classes: ok, missing in a sample, zero major CN in a sample, duplicated
    (both copies usable), fully zero CN, and a usable row accompanied by an extra row with zero major CN (kept: each
    sample still has exactly one row with a positive major copy number)."""
    n_mut = int(rng.integers(2, 9)) if not many else int(rng.integers(270, 330))
    D = int(rng.integers(1, 4)) if not many else int(rng.integers(1, 3))
    if c % 4 == 1:
        # purely numeric sample ids whose numeric order differs from their string order ("10" < "2")
        samples = [str(x) for x in rng.permutation([2, 10, 33, 9, 100, 7])[:D]]
    else:
        samples = ["T%d" % s for s in rng.permutation(9)[:D]]
        if c % 6 == 4:
            samples[0] = ["NA", "null", "S#1", "None"][int(rng.integers(0, 4))]
    numeric_ids = c % 5 == 0
    ids = list(rng.permutation(max(50, 2 * n_mut))[:n_mut] + 1) if numeric_ids else ["mut_%s" % "".join(rng.choice(list("abcxyz"), 3)) + str(i) for i in range(n_mut)]
    if not numeric_ids and c % 3 == 1 and not many:
        # identifiers are free text: characters that mean something to table parsers, and names that spell a
        # missing-value token
        special = ["#0007", "chr3:1200#2", "NA", "null", "None", "N/A", "nan", "a b", "1e5", "007", "x|y", "a;b", "(p)",
                   "chr1:5:A>T", "NULL", "#N/A", "<NA>", "-", "n/a", "\u00e9\u00df", "0x1F", "True", "mut%", "a'b", "@id", "*"]
        for k in rng.permutation(len(ids))[: max(1, len(ids) // 2)]:
            ids[int(k)] = special[int(rng.integers(0, len(special)))] + ("" if rng.random() < 0.5 else "_%d" % k)
        ids = list(dict.fromkeys(ids))
        n_mut = len(ids)
    rows = []
    kept = []
    classes = {}
    for k, mid in enumerate(ids):
        cls = ["ok", "ok", "ok", "missing", "zero_cn", "dup", "all_zero", "dup_zero"][int(rng.integers(0, 8))] if k > 0 else "ok"
        if D == 1 and cls == "missing":
            cls = "ok"
        classes[str(mid)] = cls
        per = []
        for s in samples:
            major = int(rng.integers(1, 5))
            minor = int(rng.integers(0, major + 1))
            d = int(rng.integers(5, 300))
            alt = int(rng.integers(0, d + 1))
            per.append({"mutation_id": mid, "sample_id": s, "ref_counts": d - alt, "alt_counts": alt, "major_cn": major,
                        "minor_cn": minor, "normal_cn": 2})
        if cls == "missing":
            drop = int(rng.integers(0, D))
            per = [r for i, r in enumerate(per) if i != drop]
        elif cls == "zero_cn":
            z = int(rng.integers(0, D))
            per[z]["major_cn"] = 0
            per[z]["minor_cn"] = 0
        elif cls == "all_zero":
            for r in per:
                r["major_cn"] = 0
                r["minor_cn"] = 0
        elif cls == "dup":
            z = int(rng.integers(0, D))
            per.append(dict(per[z], ref_counts=per[z]["ref_counts"] + 1))
        elif cls == "dup_zero":
            # an extra, unusable row (major copy number zero) next to the usable one: every sample still has exactly
            # one row with a positive major copy number, so the mutation is kept
            z = int(rng.integers(0, D))
            per.append(dict(per[z], major_cn=0, minor_cn=0, ref_counts=per[z]["ref_counts"] + 2))
            kept.append(mid)
        else:
            kept.append(mid)
        if cls in ("missing", "dup") and rng.random() < 0.35:
            # a mutation that is dropped entirely is dropped whatever its rows contain - also a row whose major copy
            # number is below the minor one (which is an error only in a mutation that is kept)
            per[int(rng.integers(0, len(per)))].update(major_cn=1, minor_cn=2)
            classes[str(mid)] = cls + "+inconsistent_cn"
        rows.extend(per)
    return rows, samples, kept, classes


def load_task(task):
    from vlib.harness import Partial, describe_exception
    from phyclone.data.pyclone import load_data
    from phyclone.utils.exceptions import MajorCopyNumberError

    part = Partial()
    tmp = tempfile.mkdtemp(prefix="verif_c17_")
    try:
        for c in range(task["count"]):
            rng = np.random.default_rng([task["seed"], task["shard"], c, 17])
            many = c == 3 and task["shard"] % 4 == 0
            rows, samples, kept, classes = gen_table(rng, c, many=many)
            if many:
                part.count("tables_with_more_than_256_mutations")
            opt_cols = c % 4  # 0 none, 1 tumour_content, 2 error_rate, 3 both
            tc = {s: float(np.round(rng.uniform(0.2, 1.0), 3)) for s in samples}
            for r in rows:
                if opt_cols in (1, 3):
                    # usually one value per sample, but the column is per row: in a third of the tables every row has its own
                    r["tumour_content"] = tc[r["sample_id"]] if c % 3 else float(np.round(rng.uniform(0.2, 1.0), 3))
                if opt_cols in (2, 3):
                    r["error_rate"] = 0.005
            annotated = c % 5 in (1, 3)
            if annotated:
                # annotation columns the loader does not use, as real variant tables carry them: partly blank, fully
                # populated, and entirely blank
                for r in rows:
                    r["gene"] = "" if rng.random() < 0.4 else "GENE%d" % int(rng.integers(0, 50))
                    r["variant_cases"] = "case_%s" % r["sample_id"]
                    r["note"] = ""
                part.count("tables_with_annotation_columns")
            sep = "\t" if c % 3 else ","
            density = ["beta-binomial", "binomial"][c % 2]
            G = int(rng.choice([11, 21]))
            precision = 200.0
            clustered = c % 6 == 5
            case = {"seed": task["seed"], "shard": task["shard"], "case": c, "classes": classes, "samples": samples,
                    "sep": "tab" if sep == "\t" else "comma", "optional_columns": opt_cols, "clustered": clustered,
                    "annotation_columns": annotated}
            cluster_file = None
            assign = None
            if clustered:
                crow, assign = inputs.make_clusters(rng, [r for r in rows], int(rng.integers(1, 4)), textual_ids=c % 12 == 11,
                                                    per_mutation=c % 24 == 5, shuffle=c % 12 == 5)
                cluster_file = os.path.join(tmp, "cl.tsv")
                inputs.write_table(crow, cluster_file)
            results = []
            failed = False
            for perm_i in range(6):
                order = list(range(len(rows)))
                if perm_i > 0:
                    rng.shuffle(order)
                path = os.path.join(tmp, "in_%d.%s" % (perm_i, "tsv" if sep == "\t" else "csv"))
                # file syntax that carries no information: column order, line terminator, final newline
                cols = list(rows[0].keys())
                if c % 4 in (1, 2):
                    cols = [cols[int(k)] for k in np.random.default_rng([task["seed"], c, perm_i]).permutation(len(cols))]
                inputs.write_table([rows[i] for i in order], path, sep=sep, columns=cols,
                                   newline="\r\n" if (c + perm_i) % 5 == 0 else "\n", final_newline=(c + perm_i) % 3 != 0)
                try:
                    data, smp = load_data(path, np.random.default_rng(0), 1e-4, 0.4, False, cluster_file=cluster_file,
                                          density=density, grid_size=G, outlier_prob=0.0, precision=precision)
                except Exception as e:
                    et, where, msg = describe_exception(e)
                    part.violation("%s in %s while loading a table of the documented filter classes" % (et, where),
                                   dict(case, msg=msg, permutation=perm_i))
                    failed = True
                    break
                results.append((data, smp))
            part.count("evaluations")
            part.see("|".join(sorted(set(classes.values()))) + "|%s|%d|%s|%d" % (case["sep"], opt_cols, clustered, len(samples)))
            if failed:
                continue
            data0, smp0 = results[0]
            # ---- order independence: bit-identical
            for pi, (d, s) in enumerate(results[1:], start=1):
                part.count("permutations_compared")
                same = (s == smp0 and len(d) == len(data0) and all(
                    a.name == b.name and a.idx == b.idx and np.array_equal(a.value, b.value) for a, b in zip(d, data0)))
                if not same:
                    part.violation("loaded data depend on the order of the rows", dict(case, permutation=pi))
                    break
            # ---- filter, order, numbering
            if list(smp0) != sorted(samples):
                part.violation("samples are not reported in sorted order", dict(case, got=list(smp0)))
            if [dp.idx for dp in data0] != list(range(len(data0))):
                part.violation("data points are not numbered 0..n-1", dict(case, idx=[dp.idx for dp in data0]))
            if not clustered:
                exp = sorted(kept)
                got = [dp.name for dp in data0]
                if [str(g) for g in got] != [str(e) for e in exp]:
                    dropped_wrong = sorted(set(map(str, exp)) - set(map(str, got)))
                    kept_wrong = sorted(set(map(str, got)) - set(map(str, exp)))
                    part.violation("kept mutations differ from the documented filter (or are not in sorted order)",
                                   dict(case, expected=[str(e) for e in exp], got=[str(g) for g in got],
                                        wrongly_dropped=dropped_wrong, wrongly_kept=kept_wrong,
                                        wrongly_kept_classes=[classes[k] for k in kept_wrong]))
                    continue
                # ---- one likelihood row per sample in sorted sample order, defaults
                grid = np.linspace(0, 1, G)
                by = {}
                for r in rows:
                    if r["major_cn"] > 0:
                        by.setdefault(str(r["mutation_id"]), {})[r["sample_id"]] = r
                for dp in data0[:3]:
                    if dp.value.shape != (len(samples), G):
                        part.violation("likelihood grid does not have one row per sample", dict(case, shape=dp.value.shape))
                        break
                    for si, s in enumerate(sorted(samples)):
                        r = by[str(dp.name)][s]
                        t = r.get("tumour_content", 1.0)
                        e = r.get("error_rate", 0.001)
                        for gi in (0, G // 3, G - 1):
                            ref = refmodel.pyclone_log_emission(r["ref_counts"], r["alt_counts"], r["major_cn"],
                                                                r["minor_cn"], r["normal_cn"], t, e, grid[gi], density,
                                                                precision)
                            part.count("cells_compared")
                            if abs(ref - dp.value[si, gi]) > 1e-6:
                                part.violation("likelihood row does not belong to the sample in sorted sample order / "
                                               "documented defaults (tumour content 1.0, error rate 0.001) not applied",
                                               dict(case, mutation=str(dp.name), sample=s, ccf=float(grid[gi]),
                                                    reported=float(dp.value[si, gi]), reference=ref))
                                break
            else:
                members = {}
                for mid, cid in assign.items():
                    if mid in kept:
                        members.setdefault(cid, []).append(mid)
                exp = [str(cid) for cid in sorted(members)]
                if [dp.name for dp in data0] != exp:
                    part.violation("clusters are not the clusters of the kept mutations in sorted order",
                                   dict(case, expected=exp, got=[str(d.name) for d in data0]))
            if len(part.samples) < 2:
                part.sample(dict(case, kept=[str(k) for k in kept], rows=len(rows)))
        # ---- major < minor is rejected; the two excluded classes only have to raise
        for c in range(task.get("reject", 5)):
            rng = np.random.default_rng([task["seed"], task["shard"], c, 171])
            rows, samples = inputs.make_table(rng, 3, 2)
            rows[int(rng.integers(0, len(rows)))].update(major_cn=1, minor_cn=2)
            path = os.path.join(tmp, "bad.tsv")
            inputs.write_table(rows, path)
            part.count("evaluations")
            part.count("rejection_cases")
            try:
                load_data(path, np.random.default_rng(0), 1e-4, 0.4, False, density="binomial", grid_size=11,
                          outlier_prob=0.0, precision=1.0)
                part.violation("major copy number below the minor one is accepted", {"rows": rows[:4]})
            except MajorCopyNumberError:
                pass
            except Exception as e:
                et, where, msg = describe_exception(e)
                part.violation("major copy number below the minor one raises %s instead of MajorCopyNumberError" % et,
                               {"where": where, "msg": msg})
    finally:
        shutil.rmtree(tmp, ignore_errors=True)
    return None, part


def run(ctx):
    quick = ctx.tier == "quick"
    ctx.rule = ("generated tables of 2-8 mutations x 1-3 samples with mutation classes ok / missing in a sample / zero "
                "major CN in a sample / duplicated / zero everywhere, numeric and string ids (incl. '#', ':', '|', blanks, and names "
                "that spell a missing-value token: NA, null, None, N/A ...), tab or comma, columns in any order, LF or CRLF line ends, "
                "with or without a final newline, optional "
                "columns present or absent, unused annotation columns (partly blank, populated, entirely blank) in two of five tables, with and without a cluster file; 5 random row permutations each; "
                "distinct = (set of classes present, separator, optional columns, clustering, #samples)")
    ctx.assumptions = ["a row with major < minor copy number is an error in a kept mutation; in a mutation that is dropped "
                       "entirely (missing in a sample, duplicated) it is dropped with the mutation",
                       "excluded by the property: a sample keeping no usable row; extra rows in one sample offsetting "
                       "missing rows in another (generators never produce them)",
                       "a usable row plus an extra row with zero major CN counts as 'exactly one row with a positive major "
                       "copy number' (the statement's first clause) and is kept"]
    shards = 16
    tasks = [{"seed": ctx.seed, "shard": i, "count": 13 if quick else 800, "reject": 3} for i in range(shards)]
    ctx.map("checks.c17", "load_task", tasks, timeout=3000)
    ctx.map("checks.c17", "load_task", [dict(t, shard=100 + t["shard"], count=max(4, t["count"] // 4)) for t in tasks[:4]], timeout=3000,
            python_flags=("-O",))  # assertions off
    if ctx.counters.get("permutations_compared", 0) < 200:
        ctx.inconc("too few permutations compared")
