"""C08 -- SMC proposals are normalised, faithfully sampled, complete, and correctly weighted.

Observed at kernel.get_proposal_distribution(dp, parent, parent_tree): .log_p(candidate) for every placement the
reference enumerates, .sample() under exhaustive ChoiceRNG replay; kernel.create_particle(...).log_w along placement
paths; and the real SMCSampler (threshold 0) under exhaustive replay: the expected unnormalised weight mass landing on
each tree equals exp(log_p_one + log_pdf) of that tree (exact importance-sampling identity).
"""

import itertools
import math

import numpy as np

from vlib import gen, kernelx, refmodel
from vlib.choice_rng import ChoiceModelError, explore

TOL = 1e-9
KERNELS = ["bootstrap", "semi-adapted", "fully-adapted"]


def make_kernel(name, td, rng, rho, perm):
    from phyclone.smc.kernels import BootstrapKernel, FullyAdaptedKernel, SemiAdaptedKernel
    from phyclone.smc.utils import RootPermutationDistribution

    cls = {"bootstrap": BootstrapKernel, "semi-adapted": SemiAdaptedKernel, "fully-adapted": FullyAdaptedKernel}[name]
    return cls(td, rng, outlier_proposal_prob=rho, perm_dist=RootPermutationDistribution() if perm else None)


def placements(parent_tree, dp, rho, grid):
    """Reference enumeration of every way of placing dp: yields (description, candidate Tree)."""
    from phyclone.tree import Tree

    out = []
    if parent_tree is None:
        t = Tree(grid)
        t.create_root_node(children=[], data=[dp])
        out.append((("new", ()), t))
        if rho > 0:
            t = Tree(grid)
            t.add_data_point_to_outliers(dp)
            out.append((("outlier",), t))
        return out
    roots = list(parent_tree.roots)
    for r in roots:
        t = parent_tree.copy()
        t.add_data_point_to_node(dp, r)
        out.append((("existing", int(r)), t))
    for k in range(len(roots) + 1):
        for sub in itertools.combinations(roots, k):
            t = parent_tree.copy()
            t.create_root_node(children=list(sub), data=[dp])
            out.append((("new", tuple(int(s) for s in sub)), t))
    if rho > 0:
        t = parent_tree.copy()
        t.add_data_point_to_outliers(dp)
        out.append((("outlier",), t))
    return out


def ref_probability(kind, desc, n_roots, parent_has_clones, parent_is_none, rho, cand_logps=None):
    """Bootstrap proposal probability of a placement, from the statement of the prior-like proposal (used only to
    cross-check the bootstrap log_p against what sample() does is *not* needed: faithfulness compares with sample())."""
    return None


def proposal_case(task):
    from vlib.harness import Partial, describe_exception
    from phyclone.smc.swarm import Particle, TreeHolder
    from phyclone.tree import FSCRPDistribution, TreeJointDistribution
    from phyclone.utils.dev import clear_proposal_dist_caches

    part = Partial()
    seed, D, G, alpha = task["seed"], task["D"], task["G"], task["alpha"]
    rng0 = np.random.default_rng([seed, D, G, 808])
    nmax = task["nmax"]
    forests_desc = task["parents"]
    for kname, rho, perm, prior in [(k, r, p, pr) for (k, r, p) in task["kernels"] for pr in ([0.2, 0.0] if r > 0 else [0.0])]:
        # the kernel's outlier proposal and the data points' outlier prior are separate switches: prior 0 (the DataPoint
        # default, no prior term) under an outlier-proposing kernel is a legitimate pairing
        data = gen.make_data(rng0, nmax + 1, D, G, kind="moderate", outlier_prior=prior)
        td = TreeJointDistribution(FSCRPDistribution(alpha))
        for fd in forests_desc:
            f = gen.AForest.from_desc(fd) if fd is not None else None
            m = len(f.data_idxs()) if f is not None else 0
            dp = data[m]
            for give_parent_tree in ([True, False] if f is not None else [False]):
                clear_proposal_dist_caches()
                case = {"kernel": kname, "rho": rho, "perm": perm, "outlier_prior": prior, "parent": fd, "next": m,
                        "parent_tree_passed": give_parent_tree, "alpha": alpha, "D": D, "G": G, "seed": seed}
                part.count("evaluations")
                part.see("%s|%s|%s|%s" % (kname, rho, perm, gen.key_str(f.key()) if f else "none"))
                try:
                    if f is None:
                        parent_tree, parent_particle = None, None
                    else:
                        parent_tree, _ = gen.build_tree(f, data)
                        pd = None
                        if perm:
                            from phyclone.smc.utils import RootPermutationDistribution
                            pd = RootPermutationDistribution()
                        parent_particle = Particle(0, None, parent_tree.copy(), td, pd)
                    n_roots = len(parent_tree.roots) if parent_tree is not None else 0

                    def get_prop(rng):
                        kernel = make_kernel(kname, td, rng, rho, perm)
                        pt = parent_tree.copy() if (give_parent_tree and parent_tree is not None) else None
                        return kernel, kernel.get_proposal_distribution(dp, parent_particle, pt)

                    # 1. complete + normalised
                    kernel, prop = get_prop(np.random.default_rng(0))
                    cands = placements(parent_tree, dp, rho, dp.grid_size)
                    logps = {}
                    total = 0.0
                    for desc, cand in cands:
                        holder = TreeHolder(cand, td, kernel.perm_dist)
                        try:
                            lp = float(prop.log_p(holder))
                        except KeyError:
                            part.violation("placement missing from the %s proposal's support" % kname,
                                           dict(case, placement=desc))
                            lp = -np.inf
                        key = gen.key_str(gen.tree_key(cand))
                        if key in logps:
                            part.inconc("reference placements collide on %s" % key)
                        logps[key] = lp
                        total += math.exp(lp)
                    part.maxi("max_normalisation_dev", abs(total - 1))
                    if not abs(total - 1) <= TOL:
                        cond = "parent holding only outliers" if (f is not None and f.K == 0) else (
                            "no parent" if f is None else "%d top-level clones" % n_roots)
                        part.violation("%s proposal's reported probabilities do not sum to one over all placements (%s)"
                                       % (kname, cond), dict(case, total=total, log_ps=logps))
                    # 2. faithful sampling
                    law = {}
                    reported = {}

                    def once(rng):
                        clear_proposal_dist_caches()
                        kernelx.cold_array_caches()
                        _k, pr = get_prop(rng)
                        t = pr.sample()
                        lq = float(pr.log_p(t))
                        tt = t.tree if isinstance(t, TreeHolder) else t
                        return gen.key_str(gen.tree_key(tt)), lq, sorted(tt.labels.keys())

                    npaths = 0
                    for (key, lq, idxs), prob, _r in explore(once):
                        npaths += 1
                        law[key] = law.get(key, 0.0) + prob
                        reported[key] = lq
                        if idxs != list(range(m + 1)):
                            part.violation("proposal sample does not hold parent data + the new point",
                                           dict(case, idxs=idxs))
                    part.count("paths", npaths)
                    for key, p in law.items():
                        if key not in logps:
                            part.violation("%s proposal sampled a tree that is not a placement of the data point" % kname,
                                           dict(case, tree=key))
                            continue
                        dev = abs(p - math.exp(reported[key]))
                        part.maxi("max_faithfulness_dev", dev)
                        if not dev <= TOL:
                            part.violation("%s proposal: sample() returns a tree with a probability different from the "
                                           "reported one" % kname,
                                           dict(case, tree=key, sampled=p, reported=math.exp(reported[key])))
                        if abs(reported[key] - logps[key]) > TOL * (1 + abs(logps[key])) and np.isfinite(logps[key]):
                            part.violation("%s proposal reports different probabilities for the same tree" % kname,
                                           dict(case, tree=key, a=reported[key], b=logps[key]))
                    for key, lp in logps.items():
                        if math.exp(lp) > TOL and key not in law:
                            part.violation("%s proposal never samples a placement it reports positive probability for"
                                           % kname, dict(case, tree=key, reported=math.exp(lp)))
                    if len(part.samples) < 2:
                        part.sample(dict(case, placements=len(cands), law=law))
                except ChoiceModelError as e:
                    part.inconc("choice model: %s" % e)
                except Exception as e:
                    et, where, msg = describe_exception(e)
                    part.violation("%s in %s while evaluating the %s proposal" % (et, where, kname),
                                   dict(case, msg=msg))
    return None, part


def smc_case(task):
    """Exact importance-sampling identity of the real SMCSampler (no resampling) + per-path weight bookkeeping."""
    from vlib.harness import Partial, describe_exception
    from phyclone.smc.samplers import SMCSampler
    from phyclone.tree import FSCRPDistribution, TreeJointDistribution
    from phyclone.utils.dev import clear_proposal_dist_caches

    part = Partial()
    kname, rho, perm, n, N = task["kernel"], task["rho"], task["perm"], task["n"], task["N"]
    D, G, alpha, seed = task["D"], task["G"], task["alpha"], task["seed"]
    rng0 = np.random.default_rng([seed, D, G, n, 818])
    data = gen.make_data(rng0, n, D, G, kind="moderate", outlier_prior=task.get("prior", 0.2) if rho > 0 else 0.0)
    td = TreeJointDistribution(FSCRPDistribution(alpha))
    order = list(task["order"])
    sigma = [data[i] for i in order]
    case = dict(task)

    class Recording(SMCSampler):
        """The sampler renormalises the swarm at every generation (a common factor); the monitor adds the dropped
        normalising constants back so that the recorded weights are the plain products of incremental weights."""
        __slots__ = ("lognorm",)

        def _update_swarm(self):
            self.lognorm = getattr(self, "lognorm", 0.0) + float(self.swarm.log_norm_const)
            super()._update_swarm()

    try:
        mass = {}
        npaths = 0

        def once(rng):
            clear_proposal_dist_caches()
            kernelx.cold_array_caches()
            if task.get("warm_alpha"):
                # call history: the same kernel first serves a pass under another concentration value, which is then
                # changed in place without clearing any cache
                td.prior.alpha = task["warm_alpha"]
                g = np.random.default_rng([seed, 4712])
                kernel = make_kernel(kname, td, g, rho, perm)
                for _ in range(3):
                    SMCSampler(list(sigma), kernel, num_particles=4, resample_threshold=0.5).sample()
                td.prior.alpha = alpha
                kernel._rng = rng
            else:
                kernel = make_kernel(kname, td, rng, rho, perm)
            sampler = Recording(list(sigma), kernel, num_particles=N, resample_threshold=0.0)
            swarm = sampler.sample()
            res = []
            for p, lw in zip(swarm.particles, swarm.unnormalized_log_weights):
                t = p.tree
                lw = lw + sampler.lognorm
                # per-path bookkeeping: sum of log_w + log_q cannot be read back (log_q is not stored); the final
                # identity below is the aggregate form.  Here: recompute log_p_one / log_pdf on the materialised tree.
                res.append((gen.key_str(gen.tree_key(t)), float(lw), float(p.log_p_one), float(p.log_pdf),
                            float(td.log_p_one(t)), sorted(t.labels.keys())))
            return res

        for res, prob, _r in explore(once):
            npaths += 1
            for key, lw, lp1, lpdf, lp1_re, idxs in res:
                mass[key] = mass.get(key, 0.0) + prob * math.exp(lw)
                if idxs != sorted(order):
                    part.violation("SMC run returned a particle over different data", dict(case, idxs=idxs))
                if abs(lp1 - lp1_re) > 1e-8 * (1 + abs(lp1_re)):
                    part.violation("particle's stored log_p_one differs from the density of its tree",
                                   dict(case, tree=key, stored=lp1, recomputed=lp1_re))
        part.count("paths", npaths)
        part.count("evaluations")
        part.see("smc|%s|%s|%s|n%d|N%d|%s|w%s" % (kname, rho, perm, n, N, order, task.get("warm_alpha")))
        # expected: every forest over the data for which the order is compatible (outliers only if rho>0)
        forests = gen.all_forests(n, outliers=rho > 0)
        expected = {}
        for f in forests:
            if not refmodel.is_compatible_order(f, order):
                continue
            t, _ = gen.build_tree(f, data)
            lt = float(td.log_p_one(t))
            if perm:
                lt -= refmodel.count_orders(f)
            expected[gen.key_str(f.key())] = math.exp(lt)
        for key, e in expected.items():
            got = mass.get(key, 0.0)
            dev = abs(got - e) / e
            part.maxi("max_rel_weight_mass_dev", dev)
            if not dev <= 1e-8:
                part.violation("SMC (%s kernel): expected weight mass on a tree differs from its target "
                               "(fixed-root density%s)%s" % (kname, " x permutation density" if perm else "",
                                                            " after a pass under another concentration value (in-place "
                                                            "change, caches kept)" if task.get("warm_alpha") else ""),
                               dict(case, tree=key, got=got, expected=e,
                                    outliers=sorted(int(x) for x in key.split("O[")[1].rstrip("]").split(",") if x)))
        for key in mass:
            if key not in expected:
                part.violation("SMC reached a tree that is not compatible with the data order", dict(case, tree=key))
        part.sample({"case": case, "paths": npaths, "trees": len(expected)}, limit=1)
    except ChoiceModelError as e:
        part.inconc("choice model: %s" % e)
    except Exception as e:
        et, where, msg = describe_exception(e)
        part.violation("%s in %s during an SMC pass (%s kernel)" % (et, where, kname), dict(case, msg=msg))
    return None, part


def path_task(task):
    """Weights along the retained path of the real ConditionalSMCSampler on larger random trees (up to 8 points):
    log_w_t must equal [log_p + log_pdf](T_t) - [log_p + log_pdf](T_{t-1}) - log_q_t with the densities recomputed on
    the materialised trees (permutation density from the reference order count)."""
    from vlib.harness import Partial, describe_exception
    from phyclone.smc.samplers import ConditionalSMCSampler
    from phyclone.smc.swarm import TreeHolder
    from phyclone.smc.utils import RootPermutationDistribution
    from phyclone.tree import FSCRPDistribution, TreeJointDistribution
    from phyclone.utils.dev import clear_proposal_dist_caches
    from checks.c01 import random_placement_forest

    part = Partial()
    for c in range(task["count"]):
        rng = np.random.default_rng([task["seed"], task["shard"], c, 88])
        n = int(rng.integers(3, 9))
        D, G = 1 + c % 2, 5
        rho = [0.0, 0.1][c % 2]
        kname = KERNELS[c % 3]
        perm = bool((c // 3) % 2 == 0)
        alpha = float(np.exp(rng.normal() * 0.7))
        data = gen.make_data(rng, n, D, G, kind="moderate", outlier_prior=[0.2, 0.2, 0.0][(c // 2) % 3] if rho > 0 else 0.0)
        f = random_placement_forest(rng, n, 0.15 if rho > 0 else 0.0)
        case = {"seed": task["seed"], "shard": task["shard"], "case": c, "kernel": kname, "rho": rho, "perm": perm, "n": n,
                "forest": f.describe(), "alpha": alpha}
        try:
            clear_proposal_dist_caches()
            td = TreeJointDistribution(FSCRPDistribution(alpha))
            g = np.random.default_rng(c)
            kernel = make_kernel(kname, td, g, rho, perm)
            tree, _ = gen.build_tree(f, data, child_order_rng=rng)
            sigma = RootPermutationDistribution.sample(tree, g)
            order = [dp.idx for dp in sigma]
            if not refmodel.is_compatible_order(f, order):
                continue  # C09's business
            smp = ConditionalSMCSampler(tree, sigma, kernel, num_particles=2, resample_threshold=0.5)
            path = smp.constrained_path
            prev = 0.0
            prev_tree = None
            prev_particle = None
            for t, p in enumerate(path[1:], start=1):
                T = p.tree
                ft, _names = gen.tree_to_forest(T)
                cur = float(td.log_p(T)) + (-refmodel.count_orders(ft) if perm else 0.0)
                prop = kernel.get_proposal_distribution(sigma[t - 1], prev_particle, prev_tree)
                lq = float(prop.log_p(TreeHolder(T, td, kernel.perm_dist)))
                expect = cur - prev - lq
                part.count("evaluations")
                part.count("retained_path_weights_checked")
                dev = abs(float(p.log_w) - expect)
                part.maxi("max_retained_weight_dev", dev)
                if not dev <= 1e-8 * (1 + abs(expect)):
                    part.violation("incremental weight on the retained path is not target(t)/target(t-1)/proposal "
                                   "(densities recomputed on the materialised trees%s)"
                                   % (", permutation density = 1/#compatible orders" if perm else ""),
                                   dict(case, generation=t, log_w=float(p.log_w), expected=expect,
                                        tree=gen.key_str(gen.tree_key(T))))
                    break
                prev, prev_tree, prev_particle = cur, T, p
            part.see("path|%s|%s|%s|%s" % (kname, rho, perm, gen.key_str(f.key())))
            if len(part.samples) < 1:
                part.sample(dict(case, order=order))
        except Exception as e:
            et, where, msg = describe_exception(e)
            if where == "outside-repo":
                import traceback
                part.inconc("harness error: " + traceback.format_exc()[-800:])
            else:
                part.violation("%s in %s while building the retained path (%s kernel)" % (et, where, kname),
                               dict(case, msg=msg))
    return None, part


def csmc_task(task):
    """Final weights of the real ConditionalSMCSampler (resampling off) on 1-3 data points: for every particle the
    unnormalised log weight minus [log_p_one + log_pdf - sum of log_q along its ancestry] must be the same constant for
    all particles of the swarm (the swarm is renormalised every generation), and exactly -log N for a single data point."""
    from vlib.harness import Partial, describe_exception
    from phyclone.smc.samplers import ConditionalSMCSampler
    from phyclone.smc.swarm import TreeHolder
    from phyclone.smc.utils import RootPermutationDistribution
    from phyclone.tree import FSCRPDistribution, TreeJointDistribution
    from phyclone.utils.dev import clear_proposal_dist_caches
    from checks.c01 import random_placement_forest

    part = Partial()
    for c in range(task["count"]):
        rng = np.random.default_rng([task["seed"], task["shard"], c, 89])
        n = [1, 1, 2, 3][c % 4]
        rho = [0.1, 0.0, 0.1][c % 3]
        kname = KERNELS[(c // 4) % 3]
        perm = bool((c // 2) % 2)
        N = [2, 3, 5][c % 3]
        alpha = float(np.exp(rng.normal() * 0.7))
        data = gen.make_data(rng, n, 1 + c % 2, 5, kind="moderate", outlier_prior=[0.3, 0.0, 0.3, 0.3][(c // 3) % 4] if rho > 0 else 0.0)
        f = random_placement_forest(rng, n, 0.4 if rho > 0 else 0.0)
        case = {"seed": task["seed"], "shard": task["shard"], "case": c, "kernel": kname, "rho": rho, "perm": perm, "n": n,
                "N": N, "forest": f.describe(), "alpha": alpha}
        try:
            clear_proposal_dist_caches()
            td = TreeJointDistribution(FSCRPDistribution(alpha))
            g = np.random.default_rng(c + 7)
            kernel = make_kernel(kname, td, g, rho, perm)
            tree, _ = gen.build_tree(f, data)
            sigma = RootPermutationDistribution.sample(tree, g)
            if not refmodel.is_compatible_order(f, [dp.idx for dp in sigma]):
                continue
            swarm = ConditionalSMCSampler(tree, sigma, kernel, num_particles=N, resample_threshold=0.0).sample()
            offs = []
            for p, lw in zip(swarm.particles, swarm.unnormalized_log_weights):
                # ancestry, oldest first
                chain = []
                q = p
                while q is not None:
                    chain.append(q)
                    q = q.parent_particle
                chain = chain[::-1]
                sum_lq = 0.0
                parent = None
                for t, q in enumerate(chain):
                    prop = kernel.get_proposal_distribution(sigma[t], parent, None)
                    sum_lq += float(prop.log_p(TreeHolder(q.tree, td, kernel.perm_dist)))
                    parent = q
                T = p.tree
                ft, _n = gen.tree_to_forest(T)
                target = float(td.log_p_one(T)) + (-refmodel.count_orders(ft) if perm else 0.0)
                offs.append(float(lw) - (target - sum_lq))
                part.count("evaluations")
                part.count("csmc_particle_weights_checked")
            spread = max(offs) - min(offs)
            part.maxi("max_csmc_weight_spread", spread)
            bad = spread > 1e-8 or (n == 1 and abs(offs[0] + math.log(N)) > 1e-8)
            if bad:
                part.violation("final weights of the conditional SMC pass are not target / product of proposal "
                               "probabilities%s" % (" (single data point: the first generation is also the last)" if n == 1 else ""),
                               dict(case, offsets=offs, expected_single_point=-math.log(N)))
            part.see("csmc|%s|%s|%s|n%d|N%d" % (kname, rho, perm, n, N))
        except Exception as e:
            et, where, msg = describe_exception(e)
            if where == "outside-repo":
                import traceback
                part.inconc("harness error: " + traceback.format_exc()[-800:])
            else:
                part.violation("%s in %s during a conditional SMC pass (%s kernel)" % (et, where, kname), dict(case, msg=msg))
    return None, part


def path_structure(nmax):
    """Reference-only sanity: along a data order, placement paths and compatible forests are in bijection."""
    bad = []
    for n in range(1, nmax + 1):
        order = list(range(n))
        finals = {}

        def rec(f, t):
            if t == n:
                k = f.key()
                finals[k] = finals.get(k, 0) + 1
                return
            tops = f.tops()
            for r in tops:
                blocks = [list(b) for b in f.blocks]
                blocks[r].append(order[t])
                rec(gen.AForest(blocks, f.parent, f.outliers), t + 1)
            for k in range(len(tops) + 1):
                for sub in itertools.combinations(tops, k):
                    parent = list(f.parent) + [None]
                    for s in sub:
                        parent[s] = f.K
                    rec(gen.AForest([list(b) for b in f.blocks] + [[order[t]]], parent, f.outliers), t + 1)
            rec(gen.AForest(f.blocks, f.parent, list(f.outliers) + [order[t]]), t + 1)

        rec(gen.AForest([], [], []), 0)
        comp = [f.key() for f in gen.all_forests(n, outliers=True) if refmodel.is_compatible_order(f, order)]
        if set(comp) != set(finals) or any(v != 1 for v in finals.values()):
            bad.append(n)
    return bad


def run(ctx):
    ctx.rule = ("every parent state over <=3 earlier points (none, outliers only, 1-3 top-level clones; <=4 thorough) x "
                "3 proposals x outlier proposal probability {0,0.1} x permutation density on/off x parent tree passed or "
                "restored: log_p over all reference placements, exact law of sample() by replay; real SMCSampler under "
                "exhaustive replay (N in {1,2}) against exp(log_p_one + log_pdf); distinct = (kernel, setting, parent tree)")
    ctx.assumptions = ["placements enumerated by the reference from the property statement",
                       "target density taken from the code (C03) on freshly built trees; order count from the reference (C09)"]
    bad = path_structure(3 if ctx.tier == "quick" else 4)
    if bad:
        ctx.inconc("reference placement paths are not in bijection with compatible forests for n=%s" % bad)
    mprev = 3 if ctx.tier == "quick" else 4
    kernels = [(k, rho, perm) for k in KERNELS for rho in (0.0, 0.1) for perm in (False, True)]
    tasks = []
    for rho_on in (False, True):
        parents = [None]
        for m in range(1, mprev + 1):
            parents.extend(f.describe() for f in gen.all_forests(m, outliers=rho_on))
        ks = [k for k in kernels if (k[1] > 0) == rho_on]
        chunk = 12
        for i in range(0, len(parents), chunk):
            for kk in ks:
                tasks.append({"seed": ctx.seed, "D": 1 + (i // chunk) % 2, "G": 5, "alpha": [0.5, 1.0, 2.0][(i // chunk) % 3],
                              "nmax": mprev, "parents": parents[i:i + chunk], "kernels": [kk]})
    ctx.map("checks.c08", "proposal_case", tasks, timeout=1200)
    # real SMC sampler, exhaustive
    stasks = []
    for kname in KERNELS:
        for rho in (0.0, 0.1):
            for perm in (False, True):
                for n, N in ([(1, 2), (2, 1), (2, 2), (3, 1)] + ([(3, 2)] if ctx.tier == "thorough" and kname != "bootstrap" else [])):
                    orders = [list(range(n))]
                    if n == 3:
                        orders.append([2, 0, 1])
                    for order in orders:
                        stasks.append({"kernel": kname, "rho": rho, "perm": perm, "n": n, "N": N, "D": 1, "G": 4,
                                       "alpha": 0.8, "seed": ctx.seed, "order": order})
                        if rho > 0 and (n, N) in ((2, 1), (2, 2)):
                            stasks.append({"kernel": kname, "rho": rho, "perm": perm, "n": n, "N": N, "D": 1, "G": 4,
                                           "alpha": 0.8, "seed": ctx.seed, "order": order, "prior": 0.0})
                        if kname != "bootstrap" and (n, N) in ((2, 2), (3, 1)):
                            stasks.append({"kernel": kname, "rho": rho, "perm": perm, "n": n, "N": N, "D": 1, "G": 4,
                                           "alpha": 0.8, "seed": ctx.seed, "order": order, "warm_alpha": 3.1})
    ctx.map("checks.c08", "smc_case", stasks, timeout=1500)
    ptasks = [{"seed": ctx.seed, "shard": i, "count": 12 if ctx.tier == "quick" else 600} for i in range(16)]
    ctx.map("checks.c08", "path_task", ptasks, timeout=1500)
    ctasks = [{"seed": ctx.seed, "shard": i, "count": 12 if ctx.tier == "quick" else 200} for i in range(16)]
    ctx.map("checks.c08", "csmc_task", ctasks, timeout=1500)
    if ctx.counters.get("csmc_particle_weights_checked", 0) < 100:
        ctx.inconc("fewer than 100 conditional-SMC particle weights checked")
    if ctx.counters.get("retained_path_weights_checked", 0) < 200:
        ctx.inconc("fewer than 200 retained-path weights checked")
    if ctx.counters.get("paths", 0) < 1000:
        ctx.inconc("fewer than 1000 replayed paths")
