"""C02 -- tree likelihood equals the exact CCF-grid marginal under the sum constraint.

Observed: Tree.data_log_likelihood and every clone's subtree vector (each clone is the root of its own sub-problem).
Oracle: (a) brute force over all index assignments for tiny grids; (b) interval recursion (vlib.refmodel.
IntervalMarginal): lower envelope = exact value minus what double underflow can lose, upper envelope = exact value plus
what the 1e-100 floor can inject in any pairing order (direct path) / the FFT noise band (from 1000 grid points).
"""

import math

import numpy as np

from vlib import gen, refmodel

TOL = 1e-8


def forest_shapes(kmax):
    """All rooted labelled forests on <= kmax clones, one shape per isomorphism class of parent maps (cheap dedup)."""
    out = []
    seen = set()
    for k in range(1, kmax + 1):
        for parent in gen.rooted_forests(k):
            f = gen.AForest([[i] for i in range(k)], parent)
            # canonical string up to relabelling: sorted nested tuples
            def canon(i):
                return tuple(sorted(canon(c) for c in f.children(i)))
            key = tuple(sorted(canon(t) for t in f.tops()))
            if key not in seen:
                seen.add(key)
                out.append(parent)
    return out


def emission_values(rng, n, D, G):
    """Real emission grids (inputs for this property; C05 owns their correctness)."""
    from phyclone.data.pyclone import DataPoint as PD, SampleDataPoint, get_major_cn_prior

    vals = []
    for _ in range(n):
        sdps = []
        for _d in range(D):
            major = int(rng.integers(1, 4))
            minor = int(rng.integers(0, major + 1))
            depth = int(10 ** rng.uniform(1.5, 3.5))
            alt = int(rng.binomial(depth, rng.uniform(0.02, 0.6)))
            cn, mu, log_pi = get_major_cn_prior(major, minor, 2, error_rate=1e-3)
            sdps.append(SampleDataPoint(depth - alt, alt, cn, mu, log_pi, float(rng.uniform(0.3, 1.0))))
        vals.append(PD(["s%d" % i for i in range(D)], sdps).to_likelihood_grid("beta-binomial", G, precision=400.0))
    return vals


def _subtree_nodes(f, i):
    out = {i}
    for ch in f.children(i):
        out |= _subtree_nodes(f, ch)
    return out


def case_task(task):
    from vlib.harness import Partial, describe_exception
    from phyclone.data.base import DataPoint
    from phyclone.tree.utils import _convolve_two_children, compute_log_S
    from vlib import monitors

    part = Partial()
    for c in task["cases"]:
        rng = np.random.default_rng([task["seed"], c["id"], 2])
        D, G, kind = c["D"], c["G"], c["kind"]
        if c["mode"] == "brute":
            f = gen.AForest([[i] for i in range(len(c["parent"]))], c["parent"])
            # second data point in some clones
            n = f.K
            extra = [i for i in range(f.K) if rng.random() < 0.3]
            blocks = [[i] for i in range(f.K)]
            for e in extra:
                blocks[e].append(n)
                n += 1
            f = gen.AForest(blocks, c["parent"])
        else:
            f = gen.AForest.from_desc(c["forest"])
            n = len(f.data_idxs())
        if kind == "emission":
            vals = emission_values(rng, n, D, G)
        elif kind == "twins":
            vals = [v.value for v in gen.make_data(rng, n, D, G, kind="twins")]
        else:
            vals = gen.make_values(rng, n, D, G, kind)
        if c.get("f32"):
            # single-precision likelihood grids (valid through the API; the sums must still be carried in double precision)
            vals = [np.ascontiguousarray(v, dtype=np.float32) for v in vals]
            part.count("cases_with_single_precision_data")
        data = [DataPoint(i, v, name="c02_%d_%d" % (c["id"], i)) for i, v in enumerate(vals)]
        vals = [np.asarray(v, dtype=np.float64) for v in vals]
        case = {"id": c["id"], "mode": c["mode"], "D": D, "G": G, "kind": kind, "forest": f.describe(), "seed": task["seed"]}
        try:
            compute_log_S.cache_clear()
            _convolve_two_children.cache_clear()
            if c.get("warm"):
                # process history: related forests over the same data are evaluated first (every pair of its top-level clones, in a
                # random order, never the whole forest), leaving their entries in the array caches
                tops = f.tops()
                import itertools as _it
                pairs = [list(p) for p in _it.combinations(tops, 2)] if len(tops) >= 3 else []
                rng.shuffle(pairs)
                for sel in pairs[:6] + [tops[:1]]:
                    if not sel:
                        continue
                    keep = sorted(set().union(*[_subtree_nodes(f, t) for t in sel]))
                    sub = gen.AForest([f.blocks[i] for i in keep],
                                      [None if f.parent[i] is None else keep.index(f.parent[i]) for i in keep])
                    gen.build_tree(sub, data)
                    part.count("warm_up_forests")
                    if G >= 1000:
                        part.count("warm_up_forests_fft_path")
            tree, names = gen.build_tree(f, data, child_order_rng=rng if c.get("shuffle") else None,
                                         order=f.postorder(reverse_siblings=True) if c["id"] % 3 == 1 else None,
                                         incremental_rng=rng if c.get("incremental") else None)
            if c.get("incremental"):
                part.count("incrementally_built_trees")
            if c.get("grafted") and f.K >= 2:
                # the prune-regraft pattern: one subtree object grafted into two candidates, the other candidate is then
                # edited (an extra data point added to a grafted clone); the first candidate is the tree under test.  Half of
                # the time the clones are named in pre-order first (clone 0 on top, as the run loop hands trees on) and the
                # first candidate is left as add_subtree's own refresh of the path to the root leaves it (no full update)
                if c["id"] % 2:
                    tree.relabel_nodes()
                cand_nodes = list(tree.nodes)
                inner = [x for x in cand_nodes if tree.get_parent(x) != tree.root_node_name]
                x = (inner or cand_nodes)[int(rng.integers(0, len(inner or cand_nodes)))]
                sub = tree.get_subtree(x)
                par = tree.get_parent(x)
                tree.remove_subtree(sub)
                cand_a = tree.copy()
                cand_a.add_subtree(sub, parent=None if par == tree.root_node_name else par)
                if c["id"] % 4 < 2:
                    cand_a.update()
                else:
                    part.count("grafted_trees_without_full_update")
                others = list(tree.nodes) + [None]
                cand_b = tree.copy()
                cand_b.add_subtree(sub, parent=others[int(rng.integers(0, len(others)))])
                cand_b.update()
                grafted = [y for y in cand_b.nodes if y not in tree.nodes]
                extra_dp = DataPoint(n, gen.make_values(rng, 1, D, G, "moderate")[0], name="c02_%d_extra" % c["id"])
                cand_b.add_data_point_to_node(extra_dp, grafted[int(rng.integers(0, len(grafted)))])
                sub.update()
                tree = cand_a
                f2, nodes = gen.tree_to_forest(tree)
                part.count("grafted_twice_trees")
                if f2.key() != f.key():
                    part.violation("a tree's data assignment changed when another tree grafted from the same subtree was "
                                   "edited", dict(case, got=gen.key_str(f2.key())))
                    continue
                f, names = f2, {k: nd for k, nd in enumerate(nodes)}
            vec = monitors.node_vectors(tree)
            root = np.array(tree.data_log_likelihood)
            part.count("evaluations")
            part.see("%s|G%d|D%d|%s|%s" % (c["mode"], G, D, kind, gen.key_str(f.key())))
            if not np.all(np.isfinite(root)):
                part.violation("reported root likelihood vector is not finite", case)
                continue
            iv = refmodel.IntervalMarginal((D, G))
            LO, HI, rlo, rhi = iv.run(f, {i: v for i, v in enumerate(vals)})
            if c["mode"] == "brute":
                exact = refmodel.brute_force_root(f, {i: v for i, v in enumerate(vals)}, (D, G))
                _R, rec_root = refmodel.exact_node_vectors(f, {i: v for i, v in enumerate(vals)}, (D, G))
                dev_ref = float(np.max(np.abs(exact - rec_root)))
                if dev_ref > 1e-9 * (1 + float(np.max(np.abs(exact)))):
                    part.inconc("reference models disagree (brute force vs recursion): %g" % dev_ref)
                    continue
                # direct comparison wherever the value is above the floor (band of admissible reports is narrow)
                mask = (rhi - rlo) <= 1e-9
                part.count("brute_force_cases")
                part.count("brute_force_entries_compared", int(mask.sum()))
                if np.any(mask):
                    diff = np.where(mask, np.abs(root - exact), 0.0)
                    dev = float(diff.max())
                    part.maxi("max_dev_vs_brute_force", dev)
                    if dev > 1e-9 * (1 + float(np.max(np.abs(exact[mask])))):
                        d, k = np.unravel_index(int(np.argmax(diff)), diff.shape)
                        part.violation("root likelihood vector differs from the brute-force sum over all CCF index "
                                       "assignments", dict(case, max_dev=dev, sample=int(d), at_grid_index=int(k),
                                                           reported=float(root[d, k]), exact=float(exact[d, k])))
                        continue
            checks = [("root", root, rlo, rhi)]
            for i in range(f.K):
                checks.append(("clone %s" % sorted(f.clade(i)), np.array(vec[names[i]][1]), LO[i], HI[i]))
            narrow = 0
            total = 0
            for label, rep, lo, hi in checks:
                if not np.all(np.isfinite(rep)):
                    part.violation("reported likelihood vector is not finite", dict(case, where=label))
                    break
                slack = TOL * (1 + np.abs(rep))
                above = rep > hi + slack
                below = rep < lo - slack
                total += rep.size
                narrow += int(np.sum((hi - lo) <= 1e-9))
                if np.any(above) or np.any(below):
                    d, k = np.argwhere(above | below)[0]
                    what = ("reported likelihood exceeds the exact marginal by more than the floor can inject"
                            if above[d, k] else "reported likelihood is below the exact marginal (terms lost)")
                    if iv.fft:
                        what += " [FFT path]"
                    part.violation(what, dict(case, where=label, sample=int(d), grid_index=int(k), reported=float(rep[d, k]),
                                              lower=float(lo[d, k]), upper=float(hi[d, k])))
                    break
            part.count("entries_checked", total)
            part.count("entries_in_narrow_band", narrow)
            part.count("interval_cases")
            if c.get("many_clones"):
                part.count("cases_with_more_than_256_clones")
                part.count("narrow_band_entries_in_big_trees", narrow)
            if iv.fft:
                part.count("fft_path_cases")
            part.maxi("max_children", max([len(f.children(i)) for i in range(f.K)] + [len(f.tops())]))
            if len(part.samples) < 2:
                part.sample(dict(case, root_last=root[:, -1].tolist(), narrow_fraction=narrow / max(total, 1)))
        except Exception as e:
            et, where, msg = describe_exception(e)
            if where == "outside-repo":
                import traceback
                part.inconc("harness error: " + traceback.format_exc()[-700:])
            else:
                part.violation("%s in %s while computing a tree likelihood" % (et, where), dict(case, msg=msg))
    return None, part


def run(ctx):
    quick = ctx.tier == "quick"
    ctx.rule = ("(a) every forest shape on <=4 clones x G in {2,3,4,5} x D in {1,2} x data kinds against a brute-force sum "
                "over all index assignments; (b) random forests up to 12 clones, up to 8 children, 1-6 top-level clones, "
                "D 1-4, data flat / moderate / smooth / sharply peaked (depth 1e2-1e5) / real emission grids / mixed "
                "scales (1e-3 .. 1e6) / bit-identical twins, built bottom-up or incrementally (points added one by one, "
                "some by way of another clone) or by the prune-regraft pattern (one subtree grafted into two candidates, the other one edited), "
                "G in {3,5,11,101} and {999,1000,1001,1201} straddling the direct/FFT switch, against the interval "
                "recursion; distinct = (mode, grid, samples, data kind, canonical forest)")
    ctx.assumptions = ["floor constants 1e-100 / FFT switch at 1000 quoted by the property statement",
                       "band widths: floor injection m*G^(m-1)*1e-100*prod(peaks); underflow 1e-300; FFT 1e-10 per pairwise step"]
    rng = np.random.default_rng([ctx.seed, 202])
    cases = []
    cid = 0
    shapes = forest_shapes(4)
    reps = 1 if quick else 20
    for _ in range(reps):
        for parent in shapes:
            for G in (2, 3, 4, 5):
                if len(parent) == 4 and G == 5 and quick and cid % 2:
                    cid += 1
                    continue
                cases.append({"id": cid, "mode": "brute", "parent": parent, "G": G, "D": 1 + cid % 2,
                              "kind": ["moderate", "smooth", "flat", "binom"][cid % 4], "shuffle": bool(cid % 3 == 0)})
                cid += 1
    n_int = 300 if quick else 30000
    for i in range(n_int):
        n = int(rng.integers(1, 13))
        f = gen.random_forest(rng, n, max_children=8, shape=[None, "star", "bushy", "chain", None][i % 5],
                              n_tops=[None, 1, 3, 6][i % 4])
        cases.append({"id": cid, "mode": "interval", "forest": f.describe(), "G": [3, 5, 11, 101][i % 4] if i % 10 else 21,
                      "D": 1 + i % 4, "kind": ["flat", "moderate", "smooth", "peaked", "binom", "emission", "scales", "twins"][i % 8],
                      "shuffle": bool(i % 2), "warm": bool(i % 3 == 0), "incremental": bool(i % 5 in (1, 3)),
                      "grafted": bool(i % 7 == 2), "f32": bool(i % 9 == 4)})
        cid += 1
    n_big = 24 if quick else 600
    for i in range(n_big):
        n = int(rng.integers(2, 7))
        if i % 2:
            # warm cases: at least three top-level clones, so that pairs of them are evaluated first and the whole
            # forest afterwards meets their cached pairwise results
            n = int(rng.integers(4, 7))
            f = gen.random_forest(rng, n, max_children=4, shape=[None, "star", "bushy"][i % 3], n_tops=[3, 4][(i // 2) % 2],
                                  min_clones=[3, 4][(i // 2) % 2])
        else:
            f = gen.random_forest(rng, n, max_children=4, shape=[None, "star", "bushy"][i % 3], n_tops=None)
        cases.append({"id": cid, "mode": "interval", "forest": f.describe(), "G": [999, 1000, 1001, 1201, 501][i % 5],
                      "D": [1, 2, 3][(i // 5 + i) % 3], "kind": ["moderate", "smooth", "peaked", "emission"][(i // 4) % 4], "shuffle": False,
                      "warm": bool(i % 2)})
        cid += 1
    # many samples on a small grid (samples x grid points beyond 1000 while the grid itself is below it)
    for i in range(6 if quick else 60):
        n = int(rng.integers(2, 6))
        f = gen.random_forest(rng, n, max_children=4, shape=[None, "star"][i % 2], n_tops=[2, None][i % 2])
        cases.append({"id": cid, "mode": "interval", "forest": f.describe(), "G": [101, 201][i % 2], "D": [10, 12, 6][i % 3],
                      "kind": ["peaked", "binom", "smooth"][i % 3], "shuffle": False, "warm": bool(i % 2)})
        cid += 1
    # trees with more than 256 clones / more than 256 siblings (sizes beyond one byte)
    for i in range(6 if quick else 60):
        n = int(rng.integers(280, 330))
        wide = i % 3 == 2
        f = gen.random_forest(rng, n, max_children=300 if wide else [8, 2][i % 2], shape="star" if wide else [None, "chain", "bushy"][i % 3],
                              n_tops=[1, 3, 40][i % 3], min_clones=258)
        cases.append({"id": cid, "mode": "interval", "forest": f.describe(), "G": [3, 5, 11][i % 3], "D": 1 + i % 2,
                      "kind": "flat" if wide else ["smooth", "moderate", "twins", "scales"][i % 4], "shuffle": bool(i % 2),
                      "warm": False, "incremental": bool(i % 2), "many_clones": True})
        cid += 1
    big = [c for c in cases if c["G"] >= 500 or c["D"] >= 6 or c.get("many_clones")]
    small = [c for c in cases if not (c["G"] >= 500 or c["D"] >= 6 or c.get("many_clones"))]
    tasks = [{"seed": ctx.seed, "cases": [c]} for c in big]
    for i in range(0, len(small), 40):
        tasks.append({"seed": ctx.seed, "cases": small[i:i + 40]})
    ctx.map("checks.c02", "case_task", tasks, timeout=3000)
    ctx.map("checks.c02", "case_task", tasks[::7][:12], timeout=3000, python_flags=("-O",))  # assertions off
    if ctx.counters.get("brute_force_cases", 0) < 50 or ctx.counters.get("interval_cases", 0) < 100:
        ctx.inconc("too few cases evaluated")
    if ctx.counters.get("warm_up_forests_fft_path", 0) < 12:
        ctx.inconc("too few warm-up evaluations on the FFT path")
    if ctx.counters.get("fft_path_cases", 0) < 3:
        ctx.inconc("FFT path not reached")
