"""C10 -- reported CCFs are feasible on the tree and jointly maximise the likelihood.

Observed: get_map_node_ccfs_and_clonal_prev_dicts(tree).  Oracle: grid membership, per-sample feasibility, objective
value = brute-force maximum (tiny) or an independent max-plus recursion, prevalence = ccf - sum children >= -1e-12.
"""

import numpy as np

from vlib import gen, refmodel


def case_task(task):
    from vlib.harness import Partial, describe_exception
    from phyclone.process_trace.map import get_map_node_ccfs_and_clonal_prev_dicts

    part = Partial()
    for c in task["cases"]:
        rng = np.random.default_rng([task["seed"], c["id"], 10])
        f = gen.AForest.from_desc(c["forest"])
        D, G, kind = c["D"], c["G"], c["kind"]
        n = len(f.data_idxs())
        data = gen.make_data(rng, n, D, G, kind=kind)
        case = {"id": c["id"], "D": D, "G": G, "kind": kind, "forest": f.describe(), "seed": task["seed"], "mode": c["mode"]}
        try:
            if c["id"] % 3 == 0:
                # process history: the same clones with the siblings in another order were summarised just before
                # (clones created in the opposite sibling order: other graph positions and edge order, same data)
                other, _on = gen.build_tree(f, data, order=f.postorder(reverse_siblings=True),
                                            child_order_rng=np.random.default_rng(c["id"]))
                get_map_node_ccfs_and_clonal_prev_dicts(other)
                part.count("sibling_order_histories")
            tree, names = gen.build_tree(f, data, child_order_rng=rng if c["id"] % 2 else None)
            from vlib import monitors
            before = monitors.digest(tree)
            ccfs, prevs = get_map_node_ccfs_and_clonal_prev_dicts(tree)
            if c["id"] % 2:
                # the same Tree object summarised again (as a caller holding the tree may do): the later answer is the
                # one examined below
                for _ in range(2):
                    ccfs, prevs = get_map_node_ccfs_and_clonal_prev_dicts(tree)
                part.count("repeated_summaries_of_one_tree")
            if monitors.digest(tree) != before:
                part.violation("computing the reported CCFs changed the tree it was given (likelihood vectors / structure)",
                               dict(case))
                continue
        except Exception as e:
            et, where, msg = describe_exception(e)
            if where == "outside-repo":
                import traceback
                part.inconc("harness error: " + traceback.format_exc()[-700:])
            else:
                part.violation("%s in %s while computing the reported CCFs" % (et, where), dict(case, msg=msg))
            continue
        part.count("evaluations")
        # the values as the results table carries them (what the commands write): the same numbers, still on the grid
        try:
            from phyclone.process_trace.process_trace import get_clone_table
            samples_ = ["S%d" % d for d in range(D)]
            table = get_clone_table(data, samples_, tree)
            bad_cell = None
            for _, r in table.iterrows():
                cl, si = r["clone_id"], samples_.index(str(r["sample_id"]))
                if str(cl) == "-1":
                    continue
                want_c, want_p = float(np.asarray(ccfs[cl])[si]), float(np.asarray(prevs[cl])[si])
                if float(r["ccf"]) != want_c or abs(float(r["clonal_prev"]) - want_p) > 1e-12:
                    bad_cell = {"clone": str(cl), "sample": si, "table": [float(r["ccf"]), float(r["clonal_prev"])],
                                "computed": [want_c, want_p]}
                    break
            part.count("result_tables_compared")
            if bad_cell is not None:
                part.violation("CCF / clonal prevalence in the results table are not the grid values computed for the clone",
                               dict(case, **bad_cell))
                continue
        except Exception as e:
            et, where, msg = describe_exception(e)
            if where == "outside-repo":
                import traceback
                part.inconc("harness error: " + traceback.format_exc()[-700:])
            else:
                part.violation("%s in %s while building the results table" % (et, where), dict(case, msg=msg))
            continue
        if G > 256:
            part.count("fine_grid_cases")
        if c.get("many_clones"):
            part.count("cases_with_more_than_256_clones")
        part.see("%s|G%d|D%d|%s|%s" % (c["mode"], G, D, kind, gen.key_str(f.key())))
        if sorted(map(str, ccfs.keys())) != sorted(str(names[i]) for i in range(f.K)):
            part.violation("reported CCFs do not cover exactly the clones of the tree", dict(case, keys=sorted(map(str, ccfs))))
            continue
        idx = {}
        bad = False
        for i in range(f.K):
            v = np.asarray(ccfs[names[i]], dtype=float)
            k = v * (G - 1)
            if v.shape != (D,) or np.any(np.abs(k - np.round(k)) > 1e-9) or np.any(v < -1e-12) or np.any(v > 1 + 1e-12):
                part.violation("reported CCF is not a point of the CCF grid in [0,1]", dict(case, clone=i, ccf=v.tolist()))
                bad = True
                break
            idx[i] = np.round(k).astype(int)
        if bad:
            continue
        for i in range(f.K):
            s = sum((idx[ch] for ch in f.children(i)), np.zeros(D, dtype=int))
            if np.any(idx[i] < s):
                part.violation("a clone's reported CCF is below the sum of its children's", dict(
                    case, clone=i, ccf=idx[i].tolist(), children_sum=s.tolist()))
                bad = True
            pv = np.asarray(prevs[names[i]], dtype=float)
            exp = (idx[i] - s) / (G - 1)
            if np.any(np.abs(pv - exp) > 1e-9) or np.any(pv < -1e-12):
                part.violation("clonal prevalence is not CCF minus the children's CCFs (or negative)",
                               dict(case, clone=i, reported=pv.tolist(), expected=exp.tolist()))
                bad = True
        tops = sum((idx[t] for t in f.tops()), np.zeros(D, dtype=int))
        if np.any(tops > G - 1):
            part.violation("top-level clones' reported CCFs sum to more than one", dict(case, sum=tops.tolist()))
            bad = True
        if bad:
            continue
        own = []
        for i in range(f.K):
            o = np.zeros((D, G))
            for j in f.blocks[i]:
                o = o + data[j].value
            own.append(o)
        got = np.array([sum(own[i][d, idx[i][d]] for i in range(f.K)) for d in range(D)])
        if c["mode"] == "brute":
            best = refmodel.maxprod_value_bruteforce(f, own, G)
            rec = refmodel.maxprod_value_recursive(f, own, G)
            if np.max(np.abs(best - rec)) > 1e-9:
                part.inconc("reference models disagree on the max-product value")
                continue
            part.count("brute_force_cases")
        else:
            best = refmodel.maxprod_value_recursive(f, own, G)
        dev = float(np.max(best - got))
        part.maxi("max_objective_gap", dev)
        if dev > 1e-9 * (1 + float(np.max(np.abs(best)))) or float(np.min(best - got)) < -1e-9 * (1 + float(np.max(np.abs(best)))):
            d = int(np.argmax(np.abs(best - got)))
            part.violation("reported CCFs do not attain the maximum of the summed per-clone log-likelihoods",
                           dict(case, sample=d, attained=float(got[d]), maximum=float(best[d]),
                                assignment={str(i): int(idx[i][d]) for i in range(f.K)}))
        if len(part.samples) < 2:
            part.sample(dict(case, ccf_indices={str(i): idx[i].tolist() for i in range(f.K)}))
    return None, part


def run(ctx):
    from checks.c02 import forest_shapes

    quick = ctx.tier == "quick"
    ctx.rule = ("(a) every forest shape on <=4 clones x G in {2,3,4,5,6} x D in {1,2} against a brute-force maximum; (b) "
                "random forests to 10 clones, up to 8 children, G in {11,21,101}, D 1-3, data moderate / smooth / flat "
                "(all ties) / peaked, trees to 5 clones on fine grids 257..1001 and trees of 258-330 clones, against an independent max-plus recursion; ties accepted (only the value is compared); "
                "distinct = (mode, grid, samples, data kind, canonical forest)")
    ctx.assumptions = ["the two reference maximisers cross-check each other on the brute-force cases"]
    rng = np.random.default_rng([ctx.seed, 1010])
    cases = []
    cid = 0
    for rep in range(1 if quick else 20):
        for parent in forest_shapes(4):
            for G in (2, 3, 4, 5, 6):
                if len(parent) == 4 and G == 6:
                    continue
                blocks = [[i] for i in range(len(parent))]
                extra = len(parent)
                if cid % 3 == 0:
                    blocks[0].append(extra)
                f = gen.AForest(blocks, parent)
                cases.append({"id": cid, "mode": "brute", "forest": f.describe(), "G": G, "D": 1 + cid % 2,
                              "kind": ["moderate", "smooth", "flat", "binom", "near_ties"][cid % 5]})
                cid += 1
    for i in range(200 if quick else 20000):
        n = int(rng.integers(1, 11))
        f = gen.random_forest(rng, n, max_children=8, shape=[None, "star", "bushy", "chain"][i % 4], n_tops=[None, 1, 4][i % 3])
        cases.append({"id": cid, "mode": "recursive", "forest": f.describe(), "G": [11, 21, 11, 101][i % 4] if n <= 7 else 11,
                      "D": 1 + i % 3, "kind": ["moderate", "smooth", "flat", "peaked", "binom", "near_ties"][i % 6]})
        if i % 9 == 4 and n <= 7:
            cases[-1]["G"] = [13, 31, 50, 128, 23][(i // 9) % 5]  # grid steps that are not short decimals
        cid += 1
    # fine grids (indices beyond 8 / 16-bit-free ranges of small integer types, the user may choose any grid size >= 11)
    big = []
    for i in range(16 if quick else 400):
        n = int(rng.integers(1, 6))
        f = gen.random_forest(rng, n, max_children=4, shape=["chain", None, "star", "bushy"][i % 4], n_tops=[1, None, 2][i % 3])
        big.append({"id": cid, "mode": "recursive", "forest": f.describe(), "G": [257, 301, 513, 600, 258, 1001, 401, 777][i % 8],
                    "D": 1 + i % 2, "kind": ["smooth", "peaked", "binom", "moderate"][i % 4]})
        cid += 1
    # trees with more than 256 clones (sizes beyond one byte)
    for i in range(4 if quick else 60):
        n = int(rng.integers(280, 330))
        f = gen.random_forest(rng, n, max_children=[8, 300, 2][i % 3], shape=[None, "star", "bushy", "chain"][i % 4],
                              n_tops=[1, 3, 30][i % 3], min_clones=258)
        big.append({"id": cid, "mode": "recursive", "forest": f.describe(), "G": [11, 5, 21][i % 3], "D": 1 + i % 2,
                    "kind": ["smooth", "moderate", "binom", "flat"][i % 4], "many_clones": True})
        cid += 1
    tasks = [{"seed": ctx.seed, "cases": [b]} for b in big]
    tasks += [{"seed": ctx.seed, "cases": cases[i::48]} for i in range(48)]
    ctx.map("checks.c10", "case_task", tasks, timeout=3000)
    ctx.map("checks.c10", "case_task", tasks[::6][:10], timeout=3000, python_flags=("-O",))  # assertions off
    if ctx.counters.get("fine_grid_cases", 0) < 10:
        ctx.inconc("too few fine-grid cases")
    if ctx.counters.get("brute_force_cases", 0) < 40:
        ctx.inconc("too few brute-force cases")
