"""C19 -- a run on valid input completes and records only finite, complete trees.

Observed: the real phyclone.run.run called in-process on generated TSV inputs for sampled points of the CLI
cross-product including every boundary value; monitors on every trace entry.  The same driver (``run_configs``) serves
C15(b) (trace self-consistency), and C13 (call site of the concentration update) -- each check reports the violations
tagged with its own property.  Rare numerical paths of the continuous draws are reached deterministically by directed
boundary injection at the Gamma draw (values the real distribution returns with probability >= 1e-6).
"""

import math
import os
import shutil
import tempfile

import numpy as np

from vlib import inputs

BOUNDARY = {
    "n": [1, 1, 2, 2, 3, 5, 8],
    "D": [1, 1, 2, 3],
    "proposal": ["bootstrap", "semi-adapted", "fully-adapted"],
    "num_particles": [1, 2, 2, 5],
    "resample_threshold": [0.0, 0.5, 1.0],
    "outlier_prob": [0.0, 0.0, 1e-4, 0.3, 1.0],
    "subtree_update_prob": [0.0, 0.5, 1.0],
    "thin": [1, 1, 2, 3],
    "burnin": [1, 2],
    "num_iters": [1, 2, 4, 6],
    "max_time": [float("inf"), float("inf"), float("inf"), 0.0],
    "concentration_update": [True, False],
    "concentration_value": [1e-6, 0.01, 1.0, 1.0, 100.0, 1e6],
    "density": ["binomial", "beta-binomial"],
    "precision": [0.5, 400.0, 1e5],
    "grid_size": [11, 21],
    "num_samples_data_point": [0, 1, 2],
    "num_samples_prune_regraph": [0, 1, 2],
    "clustered": [False, False, True],
    "print_freq": [1, 7, 100],
    "loss_mode": ["none", "none", "assign", "assign+chrom", "user"],
    "prevalence_column": ["cellular_prevalence", "cellular_prevalence", "ccf", None],
    "low_loss_prob": [1e-4, 0.01],
    "high_loss_prob": [0.4, 1.0],
}
INJECT = [0.0, 5e-324, 1e-300, 1e-200, 1e3]


def sample_config(rng, idx):
    cfg = {k: v[int(rng.integers(0, len(v)))] for k, v in BOUNDARY.items()}
    # make sure the corners named in DESIGN.md occur often: single data point, all boundaries of the threshold
    if idx % 7 == 0:
        cfg["n"] = 1
    if idx % 5 == 0 and cfg["outlier_prob"] == 0.0:
        cfg["outlier_prob"] = 0.3
    cfg["seed"] = int(rng.integers(0, 2 ** 31))
    cfg["heavy"] = idx % 20 == 7
    if cfg["heavy"]:
        # a large data set (many samples, big deeply sequenced clusters): |log_p_one| of magnitude 1e4-1e5
        cfg.update(clustered=True, D=[10, 6, 12][(idx // 20) % 3], n=7, grid_size=[101, 21][(idx // 20) % 2], max_time=float("inf"),
                   num_iters=max(cfg["num_iters"], 4), num_samples_data_point=max(cfg["num_samples_data_point"], 1))
        if cfg["outlier_prob"] == 1.0:
            cfg["outlier_prob"] = 1e-4
        if cfg["loss_mode"] not in ("none", "assign"):
            cfg["loss_mode"] = "assign"
    if not cfg["clustered"]:
        cfg["loss_mode"] = "none"
    # sizes beyond one byte on the axes where that is cheap: iterations, particles
    if idx % 40 == 11:
        cfg.update(n=min(cfg["n"], 2), num_iters=300, max_time=float("inf"), num_particles=min(cfg["num_particles"], 2))
    if idx % 40 == 23:
        cfg.update(n=min(cfg["n"], 3), num_particles=300, num_iters=min(cfg["num_iters"], 2), heavy=False)
    if idx % 40 == 3:
        # grids at and beyond the switch to the FFT convolution
        cfg.update(grid_size=[1000, 1001, 1200][(idx // 40) % 3], n=min(cfg["n"], 4), num_particles=min(cfg["num_particles"], 5),
                   num_iters=min(cfg["num_iters"], 4), heavy=False)
    cfg["many_clones"] = idx % 40 == 31
    if cfg["many_clones"]:
        # a longer chain over shallow data with a large fixed concentration and subtree updates only: many small clones,
        # subtrees cut out of the middle of the label range and replaced by smaller ones, hundreds of times
        cfg.update(n=[9, 10, 8][(idx // 40) % 3], D=1 + (idx // 40) % 2, clustered=False, loss_mode="none", heavy=False,
                   subtree_update_prob=1.0, concentration_update=False, concentration_value=[20.0, 100.0][(idx // 40) % 2],
                   num_particles=[8, 5][(idx // 80) % 2], num_iters=300, thin=[1, 7][(idx // 40) % 2], max_time=float("inf"),
                   outlier_prob=[0.0, 1e-4, 0.0][(idx // 40) % 3], grid_size=11)
    cfg["inject"] = None
    if cfg["concentration_update"] and cfg["outlier_prob"] > 0 and idx % 3 == 0:
        cfg["inject"] = {"value": INJECT[(idx // 3) % len(INJECT)], "every": 1 + (idx // 15) % 2}
    return cfg


class GammaProxy(object):
    """Stands in for scipy.stats.gamma inside phyclone.mcmc.concentration: records every draw and can force the
    returned value (boundary injection)."""

    def __init__(self, real, plan, log):
        self.real, self.plan, self.log, self.k = real, plan, log, 0

    def rvs(self, *a, **k):
        v = self.real.rvs(*a, **k)
        self.k += 1
        forced = None
        if self.plan and self.k % self.plan["every"] == 0:
            forced = self.plan["value"]
            v = forced
        self.log.append((a, {kk: vv for kk, vv in k.items() if kk != "random_state"}, forced))
        return v

    def __getattr__(self, name):
        return getattr(self.real, name)


def run_task(task):
    from vlib import gen, monitors, sampler_mon
    from vlib.harness import Partial, describe_exception
    import gzip
    import pickle
    import phyclone.mcmc.concentration as conc_mod
    import phyclone.run as prun
    from phyclone.tree import FSCRPDistribution, Tree, TreeJointDistribution
    from phyclone.tree.utils import _convolve_two_children, compute_log_S

    sampler_mon.install(tree_invariant=task.get("tree_invariant", False))
    part = Partial()
    tmpdir = tempfile.mkdtemp(prefix="verif_run_")
    real_gamma = conc_mod.gamma
    real_burnin = prun._run_burnin
    real_update = prun.update_concentration_value
    real_sample = conc_mod.GammaPriorConcentrationSampler.sample
    conc_log = []

    def spy_sample(self, old_value, num_clusters, num_data_points):
        v = real_sample(self, old_value, num_clusters, num_data_points)
        conc_log.append((old_value, num_clusters, num_data_points, v))
        return v

    conc_mod.GammaPriorConcentrationSampler.sample = spy_sample
    import phyclone.smc.kernels.base as kbase
    real_create = kbase.Kernel.create_particle
    density_fail = []
    density_checks = [0]
    outside_window = [0]

    def create_spy(self, log_q, parent_particle, tree):
        p = real_create(self, log_q, parent_particle, tree)
        if task.get("density_monitor") and density_checks[0] < 400:
            density_checks[0] += 1
            t = p.tree
            lp = float(self.tree_dist.log_p(t))
            lp1 = float(self.tree_dist.log_p_one(t))
            if abs(lp - float(p.log_p)) > 1e-8 * (1 + abs(lp)) or abs(lp1 - float(p.log_p_one)) > 1e-8 * (1 + abs(lp1)):
                if not monitors.densities_inside_window(t):
                    outside_window[0] += 1
                elif len(density_fail) < 3:
                    density_fail.append({"stored": [float(p.log_p), float(p.log_p_one)], "recomputed": [lp, lp1],
                                         "alpha_now": float(self.tree_dist.prior.alpha)})
        return p

    kbase.Kernel.create_particle = create_spy
    try:
        for c in range(task["count"]):
            idx = task["offset"] + c
            rng = np.random.default_rng([task["seed"], idx, 19])
            cfg = sample_config(rng, idx)
            n_mut = cfg["n"] if not cfg["clustered"] else cfg["n"] + int(rng.integers(0, 4))
            if cfg.get("heavy"):
                rows, crow = inputs.heavy_table(rng, n_samples=cfg["D"], n_big=3, n_weak=cfg["n"] - 3)
                n_mut = len(rows) // cfg["D"]
                part.count("heavy_inputs")
            else:
                rows, samples = inputs.make_table(rng, n_mut, cfg["D"], tumour_content=bool(idx % 2),
                                                  error_rate=bool(idx % 3 == 0), string_ids=True,
                                                  junk_from=0 if cfg.get("many_clones") else None)
                if cfg.get("many_clones"):
                    part.count("many_clone_subtree_runs")
            in_file = os.path.join(tmpdir, "in_%d.tsv" % idx)
            inputs.write_table(rows, in_file)
            cluster_file = None
            if cfg.get("heavy"):
                cluster_file = os.path.join(tmpdir, "cl_%d.tsv" % idx)
                inputs.write_table(crow, cluster_file)
            elif cfg["clustered"]:
                if cfg["loss_mode"] == "assign+chrom":
                    for r in rows:
                        r["chrom"] = "chr%d" % (1 + sum(map(ord, str(r["mutation_id"]))) % 22)
                    inputs.write_table(rows, in_file)
                crow, _assign = inputs.make_clusters(rng, rows, cfg["n"], outlier_prob_col=[0.0, 0.05, 0.5, 1e-4]
                                                     if cfg["loss_mode"] == "user" else None,
                                                     prev_col=cfg["prevalence_column"],
                                                     per_mutation=cfg["loss_mode"] == "none" and idx % 3 == 2,
                                                     shuffle=idx % 2 == 1)
                cluster_file = os.path.join(tmpdir, "cl_%d.tsv" % idx)
                inputs.write_table(crow, cluster_file)
            out_file = os.path.join(tmpdir, "out_%d.pkl.gz" % idx)
            compute_log_S.cache_clear()
            _convolve_two_children.cache_clear()
            sampler_mon.reset()
            sampler_mon.DATA_BY_IDX.clear()
            sampler_mon.CHECK_REBUILD[0] = False
            gamma_log = []
            del density_fail[:]
            density_checks[0] = 0
            conc_mod.gamma = GammaProxy(real_gamma, cfg["inject"], gamma_log)
            captured = {}
            conc_calls = []
            stale_starts = []

            def burnin_spy(*a, **k):
                t = real_burnin(*a, **k)
                captured["burnin_tree"] = t.copy()
                return t

            def update_spy(conc_sampler, tree, tree_dist, *a, **k):
                # C13 call site: K and n counted from the graph by the monitor, compared with what sample() receives;
                # the step must start from the concentration value currently in force
                before = len(conc_log)
                alpha_before = tree_dist.prior.alpha
                real_update(conc_sampler, tree, tree_dist, *a, **k)
                seen = conc_log[before] if len(conc_log) > before else None
                if seen is not None and seen[0] != alpha_before and len(stale_starts) < 3:
                    stale_starts.append({"passed_old_value": seen[0], "current_value": alpha_before})
                K = tree.graph.num_nodes()
                out_name = tree.outlier_node_name
                n_in = sum(1 for _i, lab in tree.labels.items() if lab != out_name)
                conc_calls.append({"seen": seen[:3] if seen else None, "ret": seen[3] if seen else None, "K": K,
                                   "n": n_in, "alpha_after": tree_dist.prior.alpha,
                                   "log_alpha_after": tree_dist.prior.log_alpha})

            prun._run_burnin = burnin_spy
            prun.update_concentration_value = update_spy
            kwargs = dict(
                in_file=in_file, out_file=out_file, burnin=cfg["burnin"], cluster_file=cluster_file,
                concentration_value=cfg["concentration_value"], concentration_update=cfg["concentration_update"],
                density=cfg["density"], grid_size=cfg["grid_size"], max_time=cfg["max_time"], num_iters=cfg["num_iters"],
                num_particles=cfg["num_particles"], num_samples_data_point=cfg["num_samples_data_point"],
                num_samples_prune_regraph=cfg["num_samples_prune_regraph"], outlier_prob=cfg["outlier_prob"],
                precision=cfg["precision"], print_freq=cfg["print_freq"], proposal=cfg["proposal"],
                assign_loss_prob=cfg["loss_mode"].startswith("assign"), user_provided_loss_prob=cfg["loss_mode"] == "user",
                low_loss_prob=cfg["low_loss_prob"], high_loss_prob=cfg["high_loss_prob"],
                resample_threshold=cfg["resample_threshold"], seed=cfg["seed"], thin=cfg["thin"], num_chains=1,
                subtree_update_prob=cfg["subtree_update_prob"],
            )
            case = dict(cfg, idx=idx, n_mut=n_mut, in_rows=len(rows))
            part.count("evaluations")
            part.count("runs")
            part.see("|".join("%s=%s" % (k, cfg[k]) for k in sorted(cfg) if k not in ("seed", "inject")))
            try:
                prun.run(**kwargs)
            except Exception as e:
                et, where, msg = describe_exception(e)
                cond = []
                if cfg["n"] == 1:
                    cond.append("single data point")
                if cfg["outlier_prob"] > 0:
                    cond.append("outliers on")
                if cfg["inject"]:
                    cond.append("injected gamma draw %r" % cfg["inject"]["value"])
                if where == "outside-repo":
                    import traceback
                    part.inconc("harness error in run driver: " + traceback.format_exc()[-800:])
                else:
                    part.violation("C19|%s in %s: run did not complete (%s)" % (et, where, msg[:80]),
                                   dict(case, cond=cond, msg=msg))
                continue
            finally:
                conc_mod.gamma = real_gamma
                prun._run_burnin = real_burnin
                prun.update_concentration_value = real_update
            for fl in sampler_mon.FAILURES:
                part.violation("C07|" + fl["what"], dict(case, where=fl["where"], detail=fl["detail"]))
            # ------------------------------------------------------------------ read the trace back
            with gzip.GzipFile(out_file, "rb") as fh:
                results = pickle.load(fh)
            os.unlink(out_file)
            data = results[0]["data"]
            n_data = len(data)
            trace = results[0]["trace"]
            iters = [e["iter"] for e in trace]
            expected = [0] + [i for i in range(cfg["num_iters"]) if i % cfg["thin"] == 0]
            if cfg["max_time"] == float("inf"):
                if iters != expected:
                    part.violation("C15|trace does not record the post-burn-in state followed by exactly the multiples "
                                   "of the thinning interval", dict(case, iters=iters, expected=expected))
            else:
                if iters != expected[: len(iters)] or len(iters) < 1:
                    part.violation("C15|trace under a time limit is not a prefix of the expected iteration sequence",
                                   dict(case, iters=iters, expected=expected))
                part.count("runs_with_time_limit")
            part.count("trace_entries_checked", len(trace))
            # every entry is restored first, the restored trees are examined afterwards (as a summary command that loads
            # the whole trace does): restoring one entry must not disturb another
            restored = []
            for e in trace:
                try:
                    restored.append(Tree.from_dict(e["tree"]))
                except Exception as ex:
                    restored.append(ex)
            for ei, e in enumerate(trace):
                try:
                    t = restored[ei]
                    if isinstance(t, Exception):
                        raise monitors.Broken("entry does not restore: %r" % (t,))
                    monitors.tree_wellformed(t, expect_idxs=list(range(n_data)))
                except monitors.Broken as b:
                    part.violation("C19|recorded entry is not a well-formed tree over all data points: %s" % b.what,
                                   dict(case, entry=ei, detail=b.detail))
                    continue
                lp = e["log_p_one"]
                if not (isinstance(lp, (float, np.floating)) and math.isfinite(lp)):
                    part.violation("C19|recorded log_p_one is not finite", dict(case, entry=ei, log_p_one=repr(lp),
                                                                                 alpha=repr(e["alpha"])))
                    continue
                if not (e["alpha"] > 0 and math.isfinite(e["alpha"])):
                    part.violation("C19|recorded concentration value is not a positive finite number",
                                   dict(case, entry=ei, alpha=repr(e["alpha"])))
                    continue
                re = float(TreeJointDistribution(FSCRPDistribution(e["alpha"])).log_p_one(t))
                if not abs(re - lp) <= 1e-9 * (1 + abs(lp)) and not monitors.densities_inside_window(t):
                    # the property's quantifier: likelihood equalities on data inside the underflow window of C02
                    part.count("trace_entries_outside_underflow_window")
                elif not abs(re - lp) <= 1e-9 * (1 + abs(lp)):
                    part.violation("C15|recorded log_p_one differs from the density recomputed under the recorded "
                                   "concentration", dict(case, entry=ei, recorded=lp, recomputed=re, alpha=e["alpha"]))
            if "burnin_tree" in captured:
                t0 = Tree.from_dict(trace[0]["tree"])
                if gen.tree_key(t0) != gen.tree_key(captured["burnin_tree"]):
                    part.violation("C15|first trace entry is not the state after burn-in", dict(case))
                part.count("first_entry_checked")
            # ------------------------------------------------------------------ C13 call site
            part.count("particle_densities_recomputed", density_checks[0])
            part.count("particle_densities_outside_underflow_window", outside_window[0])
            outside_window[0] = 0
            for df in density_fail:
                part.violation("C13|a density evaluated after the concentration update does not use the current "
                               "concentration value (stale value stored in a particle)", dict(case, **df))
            for st in stale_starts:
                part.violation("C13|concentration update does not start from the concentration value currently in force "
                               "(the value every density uses)", dict(case, **st))
            for ci, cc in enumerate(conc_calls):
                part.count("concentration_updates_observed")
                if cc["seen"] is None:
                    part.violation("C13|concentration update did not call the sampler", dict(case))
                    continue
                old, k_seen, n_seen = cc["seen"]
                if k_seen != cc["K"] or n_seen != cc["n"]:
                    part.violation("C13|run loop passes K or n that differ from the tree's clone count / non-outlier "
                                   "data count", dict(case, passed=[k_seen, n_seen], tree=[cc["K"], cc["n"]]))
                if cc["alpha_after"] != cc["ret"] or (cc["ret"] > 0 and not abs(
                        float(cc["log_alpha_after"]) - math.log(cc["ret"])) <= 1e-12 * max(1.0, abs(math.log(cc["ret"])))):
                    part.violation("C13|new concentration value is not the one used afterwards (alpha / log alpha)",
                                   dict(case, ret=cc["ret"], alpha=cc["alpha_after"], log_alpha=cc["log_alpha_after"]))
                if cc["K"] == 0:
                    part.count("concentration_updates_with_no_clone")
            if cfg["concentration_update"] and conc_calls:
                # the value drawn at iteration i is the alpha recorded with iteration i
                rec = {e["iter"]: e["alpha"] for e in trace[1:]}
                for i, cc in enumerate(conc_calls):
                    if i in rec and rec[i] != cc["ret"]:
                        part.violation("C13|trace entry does not carry the concentration value drawn in its iteration",
                                       dict(case, iteration=i, recorded=rec[i], drawn=cc["ret"]))
            if cfg["inject"] and any(g[2] is not None for g in gamma_log):
                part.count("runs_with_injected_draws")
            if len(part.samples) < 2:
                part.sample(dict(case, iters=iters, last_log_p_one=trace[-1]["log_p_one"]))
            for k, v in sampler_mon.COUNTS.items():
                part.count(k, v)
    finally:
        conc_mod.GammaPriorConcentrationSampler.sample = real_sample
        kbase.Kernel.create_particle = real_create
        shutil.rmtree(tmpdir, ignore_errors=True)
    return None, part


def run_configs(ctx, n_runs, focus, chains=False, tree_invariant=False):
    """Shared driver.  focus in {'run','trace','conc'} selects which tagged violations this check owns."""
    own = {"run": ("C19", "C07"), "trace": ("C15",), "conc": ("C13",)}[focus]
    shards = 16
    per = max(1, n_runs // shards)
    sub = type(ctx)(ctx.prop_id, ctx.tier, ctx.seed)
    tasks = [{"seed": ctx.seed, "offset": i * per, "count": per, "tree_invariant": tree_invariant,
              "density_monitor": focus == "conc"} for i in range(shards)]
    sub.map("checks.c19", "run_task", tasks, timeout=3000)
    for v in sub.violations:
        tag, _, what = v["what"].partition("|")
        if tag in own:
            ctx.violations.append({"what": what, "witness": v["witness"]})
        else:
            ctx.count("violations_owned_by_" + tag)
    for r in sub.inconclusive:
        ctx.inconc(r)
    for k, v in sub.counters.items():
        ctx.count(k, v)
    for s in sub.samples:
        ctx.sample(s)
    ctx.distinct |= sub.distinct
    return sub


def run(ctx):
    quick = ctx.tier == "quick"
    ctx.rule = ("real phyclone.run.run in-process on generated TSV inputs; configuration = independent draw of every CLI "
                "option from a table of values that contains each range's boundaries (n in 1..8 data points, 1-3 samples, "
                "3 proposals, particles 1/2/5, threshold 0/0.5/1, outlier prob 0/1e-4/0.3/1, subtree prob 0/0.5/1, thin, "
                "burn-in, time limit inf/0, concentration update on/off and value 1e-6..1e6, density, precision, grid, "
                "clustered or not) + forced extreme Gamma draws; every trace entry restored and checked; "
                "distinct = distinct option vector")
    ctx.assumptions = ["alpha > 0 and precision > 0 (the model's domain)", "print frequency >= 1",
                       "multi-chain and CLI entry point are exercised by C18/C20"]
    run_configs(ctx, 640 if quick else 60000, "run", tree_invariant=False)
    if ctx.counters.get("runs", 0) < 100 or ctx.counters.get("trace_entries_checked", 0) < 300:
        ctx.inconc("too few runs / entries observed")
    if ctx.counters.get("runs_with_injected_draws", 0) < 5:
        ctx.inconc("directed boundary injection never reached a Gamma draw")
