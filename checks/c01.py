"""C01 -- one particle-Gibbs update of the whole tree leaves the posterior (density = recorded log_p_one) invariant.

Deciding oracle: exact flow conservation  sum_T pi(T) K(T,T') = pi(T')  where K is the exact law of
``ParticleGibbsTreeSampler.sample_tree`` obtained by exhaustive replay of every outcome of every random draw
(vlib.choice_rng), for every start tree of the instance, both wirings.  Plus a Monte-Carlo cross-check with the real
numpy Generator on larger instances (exact binomial tail test, false-alarm probability < 1e-7 per run).
"""

import itertools
import math

import numpy as np

from vlib import gen, kernelx

TOL = 1e-9
PROPOSALS = ["bootstrap", "semi-adapted", "fully-adapted"]


def configs(tier, seed):
    cfgs = []
    alphas = [0.4, 1.0, 2.5]
    k = 0
    # n = 1: every combination is cheap
    for prop, wiring, op, thr, N in itertools.product(PROPOSALS, ["library", "run"], [0.0, 0.2], [0.0, 0.5, 1.0], [2, 3]):
        cfgs.append(dict(move="pg", n=1, D=1 + (k % 2), G=5 - 2 * (k % 2), proposal=prop, wiring=wiring,
                         outlier_prior=op, threshold=thr, N=N, alpha=alphas[k % 3], data_seed=seed * 1000 + k % 7))
        k += 1
    # n = 2, N = 2: all kernels x wirings x outliers x thresholds, alpha rotating
    for (D, G), prop, wiring, op, thr in itertools.product([(1, 5), (2, 3)], PROPOSALS, ["library", "run"], [0.0, 0.2],
                                                           [0.0, 0.5, 1.0]):
        cfgs.append(dict(move="pg", n=2, D=D, G=G, proposal=prop, wiring=wiring, outlier_prior=op, threshold=thr, N=2,
                         alpha=alphas[k % 3], data_seed=seed * 1000 + k % 5))
        k += 1
    # n = 2, N = 3: six configurations (quick) / all (thorough)
    n2N3 = list(itertools.product(PROPOSALS, ["library", "run"], [0.0, 0.2], [0.5, 1.0]))
    if tier == "quick":
        # a rotating quarter, plus always the configurations in which a resampling step meets unequal weights with more
        # than one free slot (bootstrap proposal with outliers: unequal first-generation weights)
        n2N3 = [c for i, c in enumerate(n2N3) if i % 4 == (seed % 4) or (c[0] == "bootstrap" and c[2] > 0)]
    for prop, wiring, op, thr in n2N3:
        cfgs.append(dict(move="pg", n=2, D=1, G=5, proposal=prop, wiring=wiring, outlier_prior=op, threshold=thr, N=3,
                         alpha=alphas[k % 3], data_seed=seed * 1000 + 77))
        k += 1
        if prop == "bootstrap" and op > 0 and thr == 1.0:
            # more than one free slot, resampling after a generation with unequal weights: whether one particle carries half of
            # the weight depends on the data and the concentration, so several of each
            for a2, ds in ((0.4, 77), (1.0, 77), (2.5, 78), (1.0, 79)):
                if a2 != alphas[(k - 1) % 3] or ds != 77:
                    cfgs.append(dict(move="pg", n=2, D=1, G=5, proposal=prop, wiring=wiring, outlier_prior=op, threshold=thr,
                                     N=3, alpha=a2, data_seed=seed * 1000 + ds))
    # a single particle (the command line accepts --num-particles 1): the pass holds only the retained path
    for prop, wiring, op, n in itertools.product(PROPOSALS, ["library", "run"], [0.0, 0.2], [2, 3]):
        if tier == "quick" and n == 3 and (op > 0 or wiring == "run"):
            continue
        cfgs.append(dict(move="pg", n=n, D=1, G=4, proposal=prop, wiring=wiring, outlier_prior=op, threshold=0.5, N=1,
                         alpha=alphas[k % 3], data_seed=seed * 1000 + 33))
        k += 1
    # call histories: warm caches under another concentration value, change it in place, then the update under test
    for prop, wiring, op in itertools.product(["semi-adapted", "fully-adapted"], ["library", "run"], [0.0, 0.2]):
        cfgs.append(dict(move="pg", n=2, D=1, G=5, proposal=prop, wiring=wiring, outlier_prior=op, threshold=0.5, N=2,
                         alpha=alphas[k % 3], warm_alpha=alphas[(k + 1) % 3] * 3.0, warm_steps=4,
                         data_seed=seed * 1000 + 55))
        k += 1
    # n = 3, N = 2
    n3 = list(itertools.product(PROPOSALS, ["library", "run"], [0.0, 0.2]))
    if tier == "quick":
        # one without outliers per proposal (rotating wiring) -- 26 start trees, ~5e4 paths each
        n3 = [(p, ["library", "run"][(i + seed) % 2], 0.0) for i, p in enumerate(PROPOSALS)]
    for prop, wiring, op in n3:
        cfgs.append(dict(move="pg", n=3, D=1, G=4, proposal=prop, wiring=wiring, outlier_prior=op, threshold=0.5, N=2,
                         alpha=alphas[k % 3], data_seed=seed * 1000 + 99))
        k += 1
    if tier == "thorough":
        for prop, wiring in itertools.product(PROPOSALS, ["library", "run"]):
            cfgs.append(dict(move="pg", n=3, D=2, G=3, proposal=prop, wiring=wiring, outlier_prior=0.0, threshold=1.0,
                             N=2, alpha=alphas[k % 3], data_seed=seed * 1000 + 98))
            k += 1
    else:
        # resampling threshold 1 with the fully-adapted proposal (equal weights: relative ESS exactly at the threshold)
        cfgs.append(dict(move="pg", n=3, D=2, G=3, proposal="fully-adapted", wiring=["run", "library"][seed % 2], outlier_prior=0.0,
                         threshold=1.0, N=2, alpha=1.0, data_seed=8098))
    return cfgs


def run_exact(ctx, cfgs, label="exact"):
    tasks = []
    forests_n = {}
    for ci, cfg in enumerate(cfgs):
        key = (cfg["n"], cfg.get("outlier_prior", 0.0) > 0)
        if key not in forests_n:
            forests_n[key] = len(gen.all_forests(cfg["n"], outliers=key[1]))
        for s in range(forests_n[key]):
            tasks.append({"cfg": cfg, "start": s, "ci": ci})
    # biggest first for load balance
    tasks.sort(key=lambda t: -(t["cfg"]["n"] * 10 + t["cfg"].get("N", 2)))
    results = ctx.map("vlib.kernelx", "row_task", tasks, timeout=1500)
    rows = {}
    for t, r in zip(tasks, results):
        if r is None:
            continue
        if "exception" in r:
            et, where, msg = r["exception"]
            ctx.violation("%s in %s during the %s move (%s)" % (et, where, t["cfg"]["move"], msg),
                          {"cfg": t["cfg"], "start": r["start"]})
            continue
        rows.setdefault(t["ci"], {})[r["start"]] = r["row"]
    worst = 0.0
    for ci, cfg in enumerate(cfgs):
        key = (cfg["n"], cfg.get("outlier_prior", 0.0) > 0)
        if len(rows.get(ci, {})) != forests_n[key]:
            continue  # incomplete (already recorded as violation / inconclusive)
        pi_log = kernelx.pi_vector(cfg)
        resid, where, _all, row_def, unknown, pi = kernelx.flow_residual(pi_log, rows[ci])
        ctx.count("configurations")
        ctx.count("start_trees", forests_n[key])
        ctx.see("%s|n%d|N%d|%s|%s|op%s|thr%s|a%s|D%dG%d|w%s" % (cfg["move"], cfg["n"], cfg.get("N", 0),
                                                                  cfg.get("proposal"), cfg.get("wiring"),
                                                                  cfg.get("outlier_prior"), cfg.get("threshold"),
                                                                  cfg["alpha"], cfg["D"], cfg["G"], cfg.get("warm_alpha")))
        worst = max(worst, resid)
        ctx.maxi("worst_flow_residual_%s" % label, resid)
        ctx.maxi("worst_row_sum_defect", row_def)
        if row_def > 1e-9:
            ctx.violation("path probabilities of the %s move do not sum to one (enumerator/model defect?)"
                          % cfg["move"], {"cfg": cfg, "row_defect": row_def})
        if unknown:
            ctx.violation("%s move reached a tree outside the enumerated forest space" % cfg["move"],
                          {"cfg": cfg, "unknown": unknown[:5]})
        if not (resid <= TOL):
            ctx.violation(
                "flow not conserved by the %s move: proposal=%s wiring=%s outliers=%s n=%d N=%s threshold=%s%s"
                % (cfg["move"], cfg.get("proposal"), cfg.get("wiring"), "on" if cfg.get("outlier_prior", 0) > 0 else "off",
                   cfg["n"], cfg.get("N"), cfg.get("threshold"),
                   " after updates under another concentration value (in-place change, caches kept)"
                   if cfg.get("warm_alpha") else ""),
                {"cfg": cfg, "max_abs_piK_minus_pi": resid, "at_tree": where,
                 "pi": {k: pi[k] for k in list(pi)[:50]},
                 "replay": "vlib.kernelx.row_task over every start forest of cfg"})
        ctx.sample({"cfg": cfg, "start_trees": forests_n[key], "max_abs_piK_minus_pi": resid})
    return worst


# ----------------------------------------------------------------------------- Monte-Carlo cross-check
def mc_task(task):
    from vlib.harness import Partial
    from phyclone.utils.dev import clear_proposal_dist_caches

    cfg = task["cfg"]
    part = Partial()
    data = kernelx.config_data(cfg)
    forests = kernelx.config_forests(cfg)
    keys = [gen.key_str(f.key()) for f in forests]
    pi_log = kernelx.pi_vector(cfg, data, forests)
    lp = np.array([pi_log[k] for k in keys])
    p = np.exp(lp - lp.max())
    p /= p.sum()
    rng = np.random.default_rng([cfg["data_seed"], task["shard"], 12345])
    td = kernelx.make_tree_dist(cfg)
    move, _ = kernelx.make_move(cfg, rng, td)
    counts = {}
    starts = rng.choice(len(forests), size=task["m"], p=p)
    for s in starts:
        clear_proposal_dist_caches()
        tree, _ = gen.build_tree(forests[s], data)
        out = move(tree)
        k = gen.key_str(gen.tree_key(out))
        counts[k] = counts.get(k, 0) + 1
    part.count("mc_transitions", task["m"])
    return {"counts": counts}, part


def run_mc(ctx, cfg, total, shards=16):
    from scipy.stats import binom

    m = total // shards
    tasks = [{"cfg": cfg, "shard": i, "m": m} for i in range(shards)]
    results = ctx.map("checks.c01", "mc_task", tasks, timeout=1800)
    if any(r is None for r in results):
        return
    counts = {}
    for r in results:
        for k, v in r["counts"].items():
            counts[k] = counts.get(k, 0) + v
    M = m * shards
    pi_log = kernelx.pi_vector(cfg)
    mx = max(pi_log.values())
    z = sum(math.exp(v - mx) for v in pi_log.values())
    worst_p = 1.0
    worst = None
    ntrees = len(pi_log)
    for k in counts:
        if k not in pi_log:
            ctx.violation("Monte-Carlo %s move reached a tree outside the enumerated space" % cfg["move"], {"tree": k})
    for k, v in pi_log.items():
        pk = math.exp(v - mx) / z
        c = counts.get(k, 0)
        # exact two-sided binomial tail
        lo = binom.cdf(c, M, pk)
        hi = binom.sf(c - 1, M, pk)
        pv = min(1.0, 2 * min(lo, hi))
        if pv < worst_p:
            worst_p, worst = pv, (k, c, M * pk)
    # the same test on shape classes (multiset of clade sizes, number of outliers): a defect that shifts mass between
    # families of trees is far more visible in the class totals than in any single tree
    def shape(k):
        cl, outs = k[2:].split("]O[")
        sizes = sorted(len(c.split(",")) for c in cl.split("|") if c)
        return "%s/%d" % (sizes, len([x for x in outs.rstrip("]").split(",") if x]))

    cls_p, cls_c = {}, {}
    for k, v in pi_log.items():
        cls_p[shape(k)] = cls_p.get(shape(k), 0.0) + math.exp(v - mx) / z
    for k, c in counts.items():
        if k in pi_log:
            cls_c[shape(k)] = cls_c.get(shape(k), 0) + c
    worst_cls = (1.0, None)
    for sc, pk in cls_p.items():
        c = cls_c.get(sc, 0)
        pv = min(1.0, 2 * min(binom.cdf(c, M, min(pk, 1.0)), binom.sf(c - 1, M, min(pk, 1.0))))
        if pv < worst_cls[0]:
            worst_cls = (pv, (sc, c, M * pk))
    if worst_cls[0] * len(cls_p) < 1e-8:
        ctx.violation("Monte-Carlo (real numpy Generator): mass of a shape class after one %s update from pi differs "
                      "from pi: proposal=%s wiring=%s" % (cfg["move"], cfg.get("proposal"), cfg.get("wiring")),
                      {"cfg": cfg, "p_value": worst_cls[0], "class": worst_cls[1][0], "observed": worst_cls[1][1],
                       "expected": worst_cls[1][2]})
    ctx.extra.setdefault("mc", []).append(
        {"cfg": cfg, "transitions": M, "trees": ntrees, "smallest_p_value": worst_p, "at": worst,
         "shape_classes": len(cls_p), "smallest_class_p_value": worst_cls[0]})
    ctx.count("evaluations", M)
    ctx.see("mc|%s|%s|%s|n%d|N%d" % (cfg["move"], cfg.get("proposal"), cfg.get("wiring"), cfg["n"], cfg["N"]))
    if worst_p * ntrees < 1e-8:
        ctx.violation("Monte-Carlo (real numpy Generator) histogram after one %s update from pi differs from pi: "
                      "proposal=%s wiring=%s" % (cfg["move"], cfg.get("proposal"), cfg.get("wiring")),
                      {"cfg": cfg, "p_value": worst_p, "tree": worst[0], "observed": worst[1], "expected": worst[2]})


# ----------------------------------------------------------------------------- extended-target consistency (larger trees)
class _Stop(Exception):
    def __init__(self, sampler):
        self.sampler = sampler


def random_placement_forest(rng, n, p_out):
    """Random forest built by placements along the identity order (every forest compatible with it can arise)."""
    blocks, parent, outs = [], [], []
    for t in range(n):
        tops = [i for i, p in enumerate(parent) if p is None]
        u = rng.random()
        if u < p_out:
            outs.append(t)
        elif u < p_out + 0.3 and tops:
            blocks[tops[int(rng.integers(0, len(tops)))]].append(t)
        else:
            k = int(rng.integers(0, len(tops) + 1))
            ch = list(rng.permutation(tops)[:k])
            blocks.append([t])
            parent.append(None)
            for c in ch:
                parent[c] = len(blocks) - 1
    return gen.AForest(blocks, parent, outs)


def aux_task(task):
    """Necessary condition for invariance that scales to larger trees: the data-order density that enters the particle
    weights must be proportional, over trees, to the law the order is actually drawn from.  For every tree T of the
    instance the real sampler is replayed over every outcome of its order draws up to the construction of the
    conditional SMC sampler; r(T, sigma) = log_pdf used for the retained particle - log P_observed(sigma | T) must not
    depend on T for a fixed order sigma."""
    from vlib.harness import Partial, describe_exception
    from vlib.choice_rng import ChoiceModelError, explore
    from phyclone.smc.samplers.conditional import ConditionalSMCSampler
    from phyclone.utils.dev import clear_proposal_dist_caches

    part = Partial()
    cfg = task["cfg"]
    data = kernelx.config_data(cfg)
    td = kernelx.make_tree_dist(cfg)
    rng0 = np.random.default_rng([cfg["data_seed"], cfg["n"], 4242])
    forests = [gen.AForest.from_desc(d) for d in task.get("crafted", [])]
    seen = set(f.key() for f in forests)
    while len(forests) < task["trees"]:
        f = random_placement_forest(rng0, cfg["n"], 0.15 if cfg.get("outlier_prior", 0) > 0 else 0.0)
        if f.key() not in seen:
            seen.add(f.key())
            forests.append(f)
    orig_sample = ConditionalSMCSampler.sample

    def stop(self):
        raise _Stop(self)

    table = {}
    try:
        ConditionalSMCSampler.sample = stop
        for f in forests:
            def once(rng):
                clear_proposal_dist_caches()
                kernelx.cold_array_caches()
                tree, _ = gen.build_tree(f, data)
                move, _k = kernelx.make_move(cfg, rng, td)
                try:
                    move(tree)
                except _Stop as st:
                    smp = st.sampler
                    last = smp.constrained_path[-1]
                    return tuple(dp.idx for dp in smp.data_points), float(last.log_pdf), float(last.log_p_one)
                raise ChoiceModelError("sampler did not build a conditional SMC pass")

            law = {}
            used = {}
            try:
                for (sigma, lpdf, lp1), prob, _r in explore(once):
                    law[sigma] = law.get(sigma, 0.0) + prob
                    used[sigma] = lpdf
                    part.count("paths")
            except ChoiceModelError as e:
                part.inconc("choice model: %s" % e)
                continue
            part.count("evaluations")
            part.see("aux|%s|%s" % (cfg.get("wiring"), gen.key_str(f.key())))
            for sigma, p in law.items():
                table.setdefault(sigma, []).append((used[sigma] - math.log(p), gen.key_str(f.key())))
        worst = 0.0
        for sigma, lst in table.items():
            if len(lst) < 2:
                continue
            part.count("orders_shared_by_several_trees")
            vals = [v for v, _ in lst]
            dev = max(vals) - min(vals)
            worst = max(worst, dev)
            if dev > 1e-9:
                a = min(lst)
                b = max(lst)
                part.violation("particle weights use a data-order density that is not proportional, over trees, to the "
                               "law the data order is actually drawn from (update cannot be invariant)",
                               {"cfg": cfg, "order": list(sigma), "tree_a": a[1], "tree_b": b[1],
                                "log_density_minus_log_law": [a[0], b[0]]})
                break
        part.maxi("max_aux_density_inconsistency", worst)
    except Exception as e:
        et, where, msg = describe_exception(e)
        if where == "outside-repo":
            import traceback
            part.inconc("harness error: " + traceback.format_exc()[-800:])
        else:
            part.violation("%s in %s while building the conditional SMC pass" % (et, where), {"cfg": cfg, "msg": msg})
    finally:
        ConditionalSMCSampler.sample = orig_sample
    return None, part


def aux_configs(tier, seed):
    deep_wide = [
        {"blocks": [[0], [1], [2], [3], [4]], "parent": [1, 2, 4, 4, None], "outliers": []},  # 4 -> (2 -> 1 -> 0, 3)
        {"blocks": [[0], [1], [2], [3], [4]], "parent": [1, 2, None, None, None], "outliers": []},  # root: chain + 2 tops
        {"blocks": [[0], [1], [2], [3, 4]], "parent": [1, 3, 3, None], "outliers": []},
    ]
    out = []
    for i, (wiring, op) in enumerate([("library", 0.0), ("run", 0.2)] if tier == "quick" else
                                     [("library", 0.0), ("run", 0.2), ("run", 0.0), ("library", 0.2)]):
        for n in ([5, 6] if tier == "quick" else [5, 6, 7]):
            crafted = deep_wide if n == 5 else []
            out.append({"cfg": dict(move="pg", n=n, D=1, G=5, proposal=PROPOSALS[(i + seed) % 3], wiring=wiring,
                                    outlier_prior=op, threshold=0.5, N=2, alpha=1.0, data_seed=seed * 1000 + 300 + i),
                        "trees": (24 if n == 5 else 12) if tier == "quick" else (60 if n < 7 else 25), "crafted": crafted})
    return out


def mc_configs(tier, seed):
    if tier == "quick":
        return [(dict(move="pg", n=3, D=1, G=7, proposal=PROPOSALS[seed % 3], wiring=["run", "library"][seed % 2],
                      outlier_prior=0.2 if seed % 2 else 0.0, threshold=0.5, N=4, alpha=1.0,
                      data_seed=seed * 1000 + 5), 32000)]
    out = []
    for i, prop in enumerate(PROPOSALS):
        out.append((dict(move="pg", n=4, D=1, G=11, proposal=prop, wiring=["run", "library"][i % 2], outlier_prior=0.0,
                         threshold=0.5, N=5, alpha=1.0, data_seed=seed * 1000 + 6), 160000))
        out.append((dict(move="pg", n=3, D=2, G=7, proposal=prop, wiring=["library", "run"][i % 2], outlier_prior=0.2,
                         threshold=0.5, N=10, alpha=0.6, data_seed=seed * 1000 + 7), 160000))
    out.append((dict(move="pg", n=5, D=1, G=7, proposal="fully-adapted", wiring="run", outlier_prior=0.0, threshold=0.5,
                     N=4, alpha=1.5, kind="smooth", data_seed=seed * 1000 + 8), 96000))
    return out


def run(ctx):
    ctx.rule = ("every start forest over n<=3 data points x proposal x wiring (run command / library with permutation "
                "distribution) x outliers on/off x threshold x particle count; for each, every outcome of every random "
                "draw of ParticleGibbsTreeSampler.sample_tree is replayed (ChoiceRNG) giving the exact transition row; "
                "a distinct case = one configuration (all its start trees); oracle max|pi K - pi| <= 1e-9. "
                "Plus Monte-Carlo with numpy's Generator (exact binomial tail).")
    ctx.assumptions = [
        "pi is exp(log_p_one) as the code reports it (C03 ties it to the model)",
        "ChoiceRNG models numpy Generator draw semantics (cross-checked by the Monte-Carlo part)",
        "instances bounded: n<=3 (exact), n<=4 and N<=10 (Monte-Carlo)",
    ]
    cfgs = configs(ctx.tier, ctx.seed)
    run_exact(ctx, cfgs)
    ctx.map("checks.c01", "aux_task", aux_configs(ctx.tier, ctx.seed), timeout=2400)
    for cfg, total in mc_configs(ctx.tier, ctx.seed):
        run_mc(ctx, cfg, total)
    ctx.exhaustive = False
    if ctx.counters.get("paths", 0) < 1000:
        ctx.inconc("fewer than 1000 replayed paths")
    if ctx.counters.get("orders_shared_by_several_trees", 0) < 10:
        ctx.inconc("extended-target consistency: too few data orders shared by several trees")
