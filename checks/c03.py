"""C03 -- joint log-density implements the FS-CRP model and depends only on the tree.

Observed: TreeJointDistribution.log_p / log_p_one / compute_both_log_p_and_log_p_one, Tree.__eq__ / __hash__ on trees
built through different histories.  Oracle: vlib.refmodel.fscrp_log_densities (written from the statement), data term
from the reference marginal, not from the tree.
"""

import itertools
import math

import numpy as np
from scipy.special import logsumexp

from vlib import gen, refmodel

REL = 1e-8


def histories(f, data, rng):
    """The same abstract tree through different construction histories; yields (label, tree)."""
    from phyclone.tree import Tree

    t0, names = gen.build_tree(f, data)
    yield "postorder", t0
    yield "shuffled-siblings", gen.build_tree(f, data, child_order_rng=rng)[0]
    # incremental SMC-like order: clones created in post-order, data points added one at a time with dict hops
    t = Tree(data[0].shape)
    nm = {}
    for i in f.postorder():
        pts = list(f.blocks[i])
        rng.shuffle(pts)
        t = Tree.from_dict(t.to_dict())
        nm[i] = t.create_root_node(children=[nm[c] for c in f.children(i)], data=[data[pts[0]]])
        for j in pts[1:]:
            t = t.copy()
            t.add_data_point_to_node(data[j], nm[i])
    outs = list(f.outliers)
    rng.shuffle(outs)
    for j in outs:
        t.add_data_point_to_outliers(data[j])
    yield "incremental", t
    t = t0.copy()
    t.relabel_nodes()
    yield "relabelled", t
    yield "from_dict", Tree.from_dict(t0.to_dict())
    # graft / prune detour: cut a random subtree out and graft it back where it was
    if f.K >= 2:
        i = int(rng.integers(0, f.K))
        t = t0.copy()
        sub = t.get_subtree(names[i])
        par = t.get_parent(names[i])
        t.remove_subtree(sub)
        t2 = t.copy()
        t2.add_subtree(sub, parent=None if par == t.root_node_name else par)
        t2.update()
        yield "prune-regraft-detour", t2
        # split detour: cut a subtree of several clones out, cut its own child subtrees off it, then graft the pieces
        # back one by one (graph positions get vacated and reused; the abstract tree is the same)
        kids = f.children(i)
        if kids:
            t = t0.copy()
            sub = t.get_subtree(names[i])
            par = t.get_parent(names[i])
            t.remove_subtree(sub)
            pieces = []
            for ch in kids:
                piece = sub.get_subtree(names[ch])
                sub.remove_subtree(piece)
                pieces.append(piece)
            t2 = t.copy()
            t2.add_subtree(sub, parent=None if par == t.root_node_name else par)
            top = [n for n in t2.nodes if n not in t.nodes]
            for piece in pieces:
                t3 = t2.copy()
                t3.add_subtree(piece, parent=top[0])
                t2 = t3
            t2.update()
            yield "split-and-regraft-detour", t2
        # the same subtree object grafted into two candidates (as the prune-regraft move does); the other candidate is
        # then edited in place -- the first must still be the same tree
        t = t0.copy()
        sub = t.get_subtree(names[i])
        par = t.get_parent(names[i])
        t.remove_subtree(sub)
        cand_a = t.copy()
        cand_a.add_subtree(sub, parent=None if par == t.root_node_name else par)
        cand_a.update()
        others = [n for n in t.nodes] + [None]
        cand_b = t.copy()
        cand_b.add_subtree(sub, parent=others[int(rng.integers(0, len(others)))])
        cand_b.update()
        grafted = [n for n in cand_b.nodes if n not in t.nodes]
        big = [n for n in grafted if cand_b.get_data_len(n) > 1]
        if big:
            n0 = big[0]
            cand_b.remove_data_point_from_node(cand_b.get_data(n0)[0], n0)
        else:
            cand_b.relabel_nodes()
        yield "grafted-twice-other-candidate-edited", cand_a
    # assembled from two separately built (and separately relabelled) parts whose clone names overlap: the subtree
    # under clone i as one tree, the rest as another, the first grafted into the second
    if f.K >= 2:
        for relabel_sub, relabel_host in ((True, True), (True, False), (False, True)):
            i = int(rng.integers(0, f.K))
            inside = set()

            def down(j):
                inside.add(j)
                for ch in f.children(j):
                    down(ch)

            down(i)
            rest = [j for j in range(f.K) if j not in inside]
            if not rest:
                continue
            sub_ids = sorted(inside)
            fa = gen.AForest([f.blocks[j] for j in rest], [None if f.parent[j] is None else rest.index(f.parent[j]) for j in rest],
                             f.outliers)
            fb = gen.AForest([f.blocks[j] for j in sub_ids],
                             [None if j == i else sub_ids.index(f.parent[j]) for j in sub_ids])
            by_idx = {dp.idx: dp for dp in data}
            host, _hn = gen.build_tree(fa, by_idx)
            part_b, bn = gen.build_tree(fb, by_idx, order=fb.postorder(reverse_siblings=True))
            if relabel_host:
                host.relabel_nodes()
            if relabel_sub:
                part_b.relabel_nodes()
            top_b = [x for x in part_b.roots][0]
            sub = part_b.get_subtree(top_b)
            parent_name = None
            if f.parent[i] is not None:
                want = sorted(f.blocks[f.parent[i]])
                nd = host.node_data
                parent_name = [x for x in host.nodes if sorted(dp.idx for dp in nd.get(x, [])) == want][0]
            host.add_subtree(sub, parent=parent_name)
            host.update()
            yield "assembled-from-two-parts (relabelled: part %s, host %s)" % (relabel_sub, relabel_host), host
    # data-point detour: move a point to another clone / outliers and back
    movable = [(i, j) for i in range(f.K) for j in f.blocks[i] if len(f.blocks[i]) > 1]
    if movable and f.K >= 1:
        i, j = movable[int(rng.integers(0, len(movable)))]
        t = t0.copy()
        t.remove_data_point_from_node(data[j], names[i])
        t.add_data_point_to_outliers(data[j])
        t = t.copy()
        t.remove_data_point_from_node(data[j], t.outlier_node_name)
        t.add_data_point_to_node(data[j], names[i])
        yield "data-point-detour", t


def case_task(task):
    from vlib.harness import Partial, describe_exception
    from phyclone.tree import FSCRPDistribution, TreeJointDistribution
    from phyclone.tree.utils import _convolve_two_children, compute_log_S

    part = Partial()
    for c in task["cases"]:
        rng = np.random.default_rng([task["seed"], c["id"], 3])
        D, G, op = c["D"], c["G"], c["outlier_prior"]
        forests = [gen.AForest.from_desc(d) for d in c["forests"]]
        n = c["n"]
        sizes = [int(rng.integers(1, 4)) for _ in range(n)] if c.get("cluster_sizes") else None
        priors = op
        if op > 0 and c["id"] % 3 == 1:
            # clusters with and without an outlier prior in one data set (a cluster file whose outlier_prob column is 0 for
            # some clusters): the prior term applies point by point
            priors = [op if rng.random() < 0.6 else 0.0 for _ in range(n)]
        data = gen.make_data(rng, n, D, G, kind=c["kind"], outlier_prior=priors, sizes=sizes)
        values = {i: dp.value for i, dp in enumerate(data)}
        oterms = {i: ((dp.outlier_prob, dp.outlier_prob_not) if dp.outlier_prob != 0 else None) for i, dp in enumerate(data)}
        compute_log_S.cache_clear()
        _convolve_two_children.cache_clear()
        built = []
        for f in forests:
            case = {"id": c["id"], "n": n, "D": D, "G": G, "outlier_prior": op, "kind": c["kind"],
                    "forest": f.describe(), "seed": task["seed"]}
            try:
                iv = refmodel.IntervalMarginal((D, G))
                _lo, _hi, rlo, rhi = iv.run(f, values)
                if rlo is not None and max(float(np.max(rhi[:, -1] - rlo[:, -1])),
                                           float(np.max(logsumexp(rhi, axis=1) - logsumexp(rlo, axis=1)))) > 1e-10:
                    part.count("skipped_outside_underflow_window")
                    if c.get("big"):
                        part.count("big_trees_skipped_outside_underflow_window")
                    continue
                _R, root = refmodel.exact_node_vectors(f, values, (D, G))
                ref_tree = None
                for alpha in c["alphas"]:
                    ref_p, ref_one = refmodel.fscrp_log_densities(f, values, (D, G), alpha, oterms, root=root)
                    td = TreeJointDistribution(FSCRPDistribution(alpha))
                    for label, t in histories(f, data, rng):
                        part.count("evaluations")
                        lp, lp1 = float(td.log_p(t)), float(td.log_p_one(t))
                        both = td.compute_both_log_p_and_log_p_one(t)
                        for name, got, ref in (("log_p (marginal form)", lp, ref_p), ("log_p_one (fixed-root form)", lp1, ref_one)):
                            dev = abs(got - ref)
                            part.maxi("max_dev_vs_reference", dev / (1 + abs(ref)))
                            if not dev <= REL * (1 + abs(ref)):
                                part.violation("%s differs from the FS-CRP reference density" % name,
                                               dict(case, alpha=alpha, history=label, reported=got, reference=ref,
                                                    K=f.K, tops=len(f.tops()), n_outliers=len(f.outliers)))
                        if abs(float(both[0]) - lp) > 1e-12 * (1 + abs(lp)) or abs(float(both[1]) - lp1) > 1e-12 * (1 + abs(lp1)):
                            part.violation("fused computation of the two densities differs from the separate ones",
                                           dict(case, alpha=alpha, history=label, fused=[float(both[0]), float(both[1])],
                                                separate=[lp, lp1]))
                        if ref_tree is None:
                            ref_tree = t
                        else:
                            if not (t == ref_tree) or hash(t) != hash(ref_tree):
                                part.violation("the same tree built through a different history does not compare / "
                                               "hash equal", dict(case, history=label))
                    part.see("%s|a%s|op%s" % (gen.key_str(f.key()) if not c.get("big") else "big%d" % c["id"], alpha, op))
                    if c.get("big"):
                        part.count("big_trees_evaluated")
                        part.maxi("most_top_level_clones", len(f.tops()))
                built.append((f.key(), ref_tree))
                if len(part.samples) < 2:
                    part.sample(dict(case, alphas=c["alphas"], reference=[ref_p, ref_one]))
            except Exception as e:
                et, where, msg = describe_exception(e)
                if where == "outside-repo":
                    import traceback
                    part.inconc("harness error: " + traceback.format_exc()[-700:])
                else:
                    part.violation("%s in %s while scoring a tree" % (et, where), dict(case, msg=msg))
        # trees with different clades / outliers must compare unequal
        for (ka, ta), (kb, tb) in itertools.combinations(built[:40], 2):
            part.count("inequality_pairs")
            if ka != kb and (ta == tb):
                part.violation("trees with different clades or outliers compare equal",
                               {"a": gen.key_str(ka), "b": gen.key_str(kb)})
    return None, part


def run(ctx):
    quick = ctx.tier == "quick"
    ctx.rule = ("every forest over <=3 points (<=4 thorough) x every outlier subset x alpha in {0.05,0.4,1,3,50} x outlier "
                "prior in {0,1e-3,0.2} (with cluster sizes 1-3) x up to 7 construction histories (post-order, shuffled "
                "siblings, incremental with dict hops, relabelled, from_dict, prune-regraft detour, assembled from two separately "
                "relabelled parts with overlapping clone names, data-point detour); "
                "random trees to 12 points, D<=3, and trees of 258-330 clones; distinct = (canonical tree, alpha, outlier prior)")
    ctx.assumptions = ["root-count penalty normaliser -(R-1)log1000 - log((1-1000^-R)/(1-1/1000)) frozen from the pinned code",
                       "cases whose data term (last grid entry / row log-sum of the root vector) is not inside the C02 underflow window (band > 1e-10) are skipped",
                       "outlier prior terms apply to a point only when its outlier probability is non-zero"]
    rng = np.random.default_rng([ctx.seed, 303])
    cases = []
    cid = 0
    alphas = [0.05, 0.4, 1.0, 3.0, 50.0]
    nmax = 3 if quick else 4
    for n in range(1, nmax + 1):
        for op in (0.0, 1e-3, 0.2):
            fs = gen.all_forests(n, outliers=op > 0)
            chunk = 12 if n < 4 else 20
            for i in range(0, len(fs), chunk):
                cases.append({"id": cid, "n": n, "D": 1 + cid % 2, "G": [5, 7][cid % 2], "outlier_prior": op,
                              "kind": ["moderate", "smooth", "twins", "flat"][cid % 4], "alphas": alphas if n < 4 else alphas[1::2],
                              "forests": [f.describe() for f in fs[i:i + chunk]], "cluster_sizes": bool(cid % 3 == 0)})
                cid += 1
    nrand = 60 if quick else 8000
    for i in range(nrand):
        n = int(rng.integers(4, 13))
        op = [0.0, 0.2, 0.01][i % 3]
        f = gen.random_forest(rng, n, max_children=6, p_outlier=0.2 if op > 0 else 0.0,
                              shape=[None, "star", "bushy", "chain"][i % 4], n_tops=[None, 1, 4][i % 3])
        cases.append({"id": cid, "n": n, "D": 1 + i % 3, "G": [5, 11, 21][i % 3], "outlier_prior": op,
                      "kind": ["moderate", "smooth", "twins", "flat", "scales"][i % 5], "alphas": [alphas[i % 5], alphas[(i + 2) % 5]],
                      "forests": [f.describe()], "cluster_sizes": bool(i % 4 == 0)})
        cid += 1
    # trees with more than 256 clones (sizes beyond one byte)
    bigs = []
    for i in range(6 if quick else 64):
        n = int(rng.integers(280, 330))
        op = [0.0, 0.01][i % 2]
        wide = i % 6 in (4, 5)  # wide sibling sets stay inside the underflow window only with flat data
        if i % 6 == 4:
            # many top-level clones (a hundred and more), the others spread below them
            T = [110, 150, 104, 130, 103, 102][(i // 6) % 6]
            parent = [None] * T + [0] + list(range(T, n - 1))  # T top-level clones, the rest a chain below the first
            outs = [n - 1] if op > 0 else []
            f = gen.AForest([[j] for j in range(n - len(outs))], parent[: n - len(outs)], outs)
        else:
            f = gen.random_forest(rng, n, max_children=60 if wide else [8, 2, 4][i % 3], p_outlier=0.01 if op > 0 else 0.0,
                                  shape="star" if wide else [None, "chain", "bushy"][i % 3],
                                  n_tops=40 if wide else [1, 3, 2][i % 3], min_clones=258)
        bigs.append({"id": cid, "n": n, "D": 1 + i % 2, "G": 3 if i % 6 == 4 else [3, 5][i % 2], "outlier_prior": op,
                     "kind": "flat" if wide else ["smooth", "flat", "moderate", "twins"][i % 4], "alphas": [alphas[i % 5]],
                     "forests": [f.describe()], "cluster_sizes": bool(i % 4 == 0), "big": True})
        cid += 1
    tasks = [{"seed": ctx.seed, "cases": [b]} for b in bigs]
    tasks += [{"seed": ctx.seed, "cases": cases[i::32]} for i in range(32)]
    ctx.map("checks.c03", "case_task", tasks, timeout=3000)
    ctx.map("checks.c03", "case_task", tasks[::5][:8], timeout=3000, python_flags=("-O",))  # assertions off
    if ctx.counters.get("big_trees_evaluated", 0) < 3:
        ctx.inconc("big trees not evaluated (all outside the underflow window?)")
    if ctx.counters.get("evaluations", 0) < 500:
        ctx.inconc("too few density evaluations")
