"""C18 -- a seeded run is reproducible regardless of scheduling and hash seed.

Observed: trace files of real `phyclone run --seed S` subprocesses.  For each configuration one reference run and
perturbed runs: PYTHONHASHSEED in {0,1,12345,random}, one core vs all (taskset), nice, concurrent load from the other
runs, and sitecustomize failpoints that delay chain k's start and finish so that the completion order of the parallel
chains is reversed / rotated.  Oracle: per chain number identical sequences of tree canonical keys, alpha and log_p_one
(exact float equality) and iter; `time` excluded.
"""

import gzip
import json
import os
import pickle
import shutil
import subprocess
import tempfile

import numpy as np

from checks.c20 import cli_env, phyclone_cli
from vlib import harness, inputs


def fingerprint(path):
    """Per chain: list of (iter, alpha, log_p_one, canonical tree key string, labels) -- read with the real Tree."""
    from phyclone.tree import Tree
    from vlib import gen

    with gzip.GzipFile(path, "rb") as fh:
        res = pickle.load(fh)
    out = {}
    for ch, r in res.items():
        seq = []
        for e in r["trace"]:
            t = Tree.from_dict(e["tree"])
            seq.append([int(e["iter"]), float(e["alpha"]).hex(), float(e["log_p_one"]).hex(), gen.key_str(gen.tree_key(t)),
                        sorted((int(k), str(v)) for k, v in t.labels.items())])
        out[str(ch)] = seq
    return out, [str(dp.name) for dp in res[0]["data"]], list(res.keys())


def run_task(task):
    from vlib.harness import Partial

    part = Partial()
    tmp = tempfile.mkdtemp(prefix="verif_c18_")
    try:
        cfg = task["cfg"]
        rng = np.random.default_rng([task["seed"], cfg["id"], 18])
        if cfg.get("branching"):
            rows, samples = inputs.branching_table(rng, cfg["n_mut"])
        else:
            rows, samples = inputs.make_table(rng, cfg["n_mut"], 2, string_ids=True, junk_from=cfg.get("junk_from"))
        in_file = os.path.join(tmp, "in.tsv")
        inputs.write_table(rows, in_file)
        args = ["run", "-i", in_file, "-n", str(cfg["iters"]), "-b", "1", "--num-particles", str(cfg.get("particles", 5)),
                "--grid-size", str(cfg.get("grid", 11)), "-d", cfg.get("density", "beta-binomial"),
                "--seed", str(cfg["run_seed"]), "--num-chains", str(cfg["chains"]), "-p", cfg["proposal"],
                "-l", str(cfg["outlier_prob"]), "-s", str(cfg["subtree"]), "--print-freq", "1000"]
        if cfg["clustered"]:
            crow, _ = inputs.make_clusters(rng, rows, 3)
            cl = os.path.join(tmp, "cl.tsv")
            inputs.write_table(crow, cl)
            args += ["-c", cl]
        env_spec = task["env"]
        out = os.path.join(tmp, "trace.pkl.gz")
        log = os.path.join(tmp, "chains.log")
        extra = {"PYTHONHASHSEED": str(env_spec["hashseed"]), "VERIF_CHAIN_LOG": log}
        if env_spec.get("delays"):
            extra["VERIF_CHAIN_DELAYS"] = json.dumps(env_spec["delays"])
        if env_spec.get("optimize"):
            extra["PYTHONOPTIMIZE"] = "1"  # assert statements are not executed
        if env_spec.get("clock_skew"):
            extra["VERIF_CLOCK_SKEW"] = json.dumps({"seed": env_spec["clock_skew"], "max": 0.02})
        env = cli_env(extra)
        if env_spec["hashseed"] == "random":
            env["PYTHONHASHSEED"] = "random"
        prefix = []
        if env_spec.get("one_core") or env_spec.get("cores"):
            cores = sorted(os.sched_getaffinity(0))
            k = int(env_spec.get("cores", 1))
            first = (task["slot"] * k) % len(cores)
            sel = [cores[(first + j) % len(cores)] for j in range(k)]
            prefix = ["taskset", "-c", ",".join(str(x) for x in sel)]
        if env_spec.get("nice"):
            prefix = ["nice", "-n", "10"] + prefix
        try:
            p = subprocess.run(prefix + [harness.PYTHON, "-c", "from phyclone.cli import main; main()"] + args + ["-o", out],
                               env=env, stdout=subprocess.PIPE, stderr=subprocess.STDOUT, timeout=1500, text=True)
        except subprocess.TimeoutExpired:
            part.inconc("phyclone run watchdog fired")
            return None, part
        if p.returncode != 0:
            part.violation("seeded phyclone run failed", {"cfg": cfg, "env": env_spec, "output": p.stdout[-800:]})
            return None, part
        fp, names, chain_keys = fingerprint(out)
        order = []
        if os.path.exists(log):
            for line in open(log):
                ch, ev, _t, _pid = line.split()
                if ev == "finish":
                    order.append(int(ch))
        part.count("evaluations")
        part.count("cli_runs")
        return {"fp": fp, "names": names, "completion_order": order, "insertion_order": [int(k) for k in chain_keys],
                "hashseed": env_spec["hashseed"], "one_core": bool(env_spec.get("one_core"))}, part
    finally:
        shutil.rmtree(tmp, ignore_errors=True)


def inproc_task(task):
    """In-process differential runs: the same seeded chain twice with different *ambient* random state (numpy's global
    RandomState and Python's random module, which in a spawned worker are seeded from OS entropy) and cold caches both
    times.  Cheap enough to visit rare branches (single data point, every point an outlier, ...)."""
    import random as pyrandom
    from vlib import gen
    from vlib.harness import Partial, describe_exception
    import phyclone.run as prun
    from phyclone.tree import Tree
    from phyclone.tree.utils import _convolve_two_children, compute_log_S
    from phyclone.utils.dev import clear_proposal_dist_caches

    part = Partial()
    for c in range(task["count"]):
        rng = np.random.default_rng([task["seed"], task["shard"], c, 1818])
        n = int(rng.choice([1, 1, 2, 2, 3, 5]))
        D = int(rng.integers(1, 3))
        op = float(rng.choice([0.0, 0.3, 0.5]))
        proposal = ["bootstrap", "semi-adapted", "fully-adapted"][c % 3]
        sub = float(rng.choice([0.0, 0.5]))
        iters = int(rng.choice([8, 20]))
        data = gen.make_data(rng, n, D, 11, kind="smooth", outlier_prior=op)
        case = {"seed": task["seed"], "shard": task["shard"], "case": c, "n": n, "outlier_prob": op, "proposal": proposal,
                "subtree_update_prob": sub, "iters": iters}
        fps = []
        visited_no_clone = False
        try:
            for variant in (101, 202):
                np.random.seed(variant)
                pyrandom.seed(variant)
                compute_log_S.cache_clear()
                _convolve_two_children.cache_clear()
                clear_proposal_dist_caches()
                g = np.random.default_rng(4242 + c)
                res = prun.run_phyclone_chain(1, True, 1.0, data, float("inf"), iters, 3, 1, 1, op, 1000, proposal, 0.5, g,
                                              ["s%d" % i for i in range(D)], 1, 0, sub)
                seq = []
                for e in res["trace"]:
                    t = Tree.from_dict(e["tree"])
                    if len(t.nodes) == 0:
                        visited_no_clone = True
                    seq.append((int(e["iter"]), float(e["alpha"]).hex(), float(e["log_p_one"]).hex(),
                                gen.key_str(gen.tree_key(t))))
                fps.append(seq)
        except Exception as e:
            et, where, msg = describe_exception(e)
            if where == "outside-repo":
                import traceback
                part.inconc("harness error: " + traceback.format_exc()[-700:])
            else:
                part.count("inprocess_runs_failed_owned_by_C19")
            continue
        part.count("evaluations")
        part.count("inprocess_pairs")
        if visited_no_clone:
            part.count("inprocess_pairs_visiting_a_tree_without_clones")
        part.see("inproc|%d|%s|%s|%s" % (n, op, proposal, sub))
        if fps[0] != fps[1]:
            first = next((i for i, (x, y) in enumerate(zip(fps[0], fps[1])) if x != y), None)
            part.violation("seeded chain is not reproducible: its trace depends on ambient (unseeded) random state "
                           "outside the generator it was given",
                           dict(case, first_differing_entry=first, a=fps[0][first] if first is not None else None,
                                b=fps[1][first] if first is not None else None))
        if len(part.samples) < 1:
            part.sample(dict(case, entries=len(fps[0])))
    return None, part


def shared_process_task(task):
    """Chains that share a process: a pool worker that finishes its chain early is handed another one, and a script may
    run several chains in one interpreter.  Every chain of a 3-chain run is run alone in this process first (nothing else
    has run yet: cold caches) and then again right after each of the other chains, without the harness touching any
    cache in between: the traces must be identical bit for bit."""
    import contextlib
    import io
    from vlib.harness import Partial, describe_exception
    import phyclone.run as prun
    from phyclone.data.pyclone import load_data

    part = Partial()
    tmp = tempfile.mkdtemp(prefix="verif_c18s_")
    try:
        rng = np.random.default_rng([task["seed"], task["shard"], 1819])
        rows, _samples = inputs.branching_table(rng, task["n_mut"])
        in_file = os.path.join(tmp, "in.tsv")
        inputs.write_table(rows, in_file)
        with contextlib.redirect_stdout(io.StringIO()):
            data, smp = load_data(in_file, np.random.default_rng(0), 1e-4, 0.4, False, density="binomial",
                                  grid_size=task["grid"], outlier_prob=0.0, precision=400)

        def chain(k):
            g = np.random.default_rng(task["run_seed"]).spawn(3)[k]
            with contextlib.redirect_stdout(io.StringIO()):
                r = prun.run_phyclone_chain(1, True, 1.0, data, float("inf"), task["iters"], 8, 1, 1, 0.0, 1000,
                                            task["proposal"], 0.5, g, smp, 1, k, 0.2)
            return [(int(e["iter"]), float(e["alpha"]).hex(), float(e["log_p_one"]).hex()) for e in r["trace"]]

        first = {}
        order = [0, 1, 2, 1, 0, 2, 0, 1, 2, 2, 1]  # every chain after every other one at least once
        prev = None
        for k in order:
            tr = chain(k)
            part.count("evaluations")
            part.count("chains_run_in_a_shared_process")
            if k not in first:
                first[k] = (tr, prev)
            elif tr != first[k][0]:
                i = next((j for j, (x, y) in enumerate(zip(tr, first[k][0])) if x != y), None)
                part.violation("seeded chain is not reproducible: its trace depends on which chain ran before it in the same "
                               "process (shared memoisation state)",
                               {"task": task, "chain": k, "ran_after_chain": prev, "first_run_after_chain": first[k][1],
                                "first_differing_entry": i, "a": first[k][0][i] if i is not None else None,
                                "b": tr[i] if i is not None else None})
                break
            prev = k
        part.see("shared|%s|%d|%d" % (task["proposal"], task["n_mut"], task["grid"]))
        part.sample({"task": task, "order": order}, limit=1)
    except Exception as e:
        et, where, msg = describe_exception(e)
        if where == "outside-repo":
            import traceback
            part.inconc("harness error: " + traceback.format_exc()[-700:])
        else:
            part.count("shared_process_runs_failed_owned_by_C19")
    finally:
        shutil.rmtree(tmp, ignore_errors=True)
    return None, part


def repeat_task(task):
    """The same seeded chain three times in one process on shallow data with a large fixed concentration and frequent
    subtree updates (a dozen clones, subtrees cut out and grafted back hundreds of times): identical traces.  Anything
    that iterates over an unordered container whose order is not a function of the seed shows up here."""
    import contextlib
    import io
    from vlib import gen
    from vlib.harness import Partial, describe_exception
    import phyclone.run as prun
    from phyclone.data.pyclone import load_data
    from phyclone.tree import Tree

    part = Partial()
    tmp = tempfile.mkdtemp(prefix="verif_c18r_")
    try:
        rng = np.random.default_rng([task["seed"], task["shard"], 1820])
        rows, _samples = inputs.make_table(rng, task["n_mut"], 2, junk_from=0)
        in_file = os.path.join(tmp, "in.tsv")
        inputs.write_table(rows, in_file)
        with contextlib.redirect_stdout(io.StringIO()):
            data, smp = load_data(in_file, np.random.default_rng(0), 1e-4, 0.4, False, density="binomial", grid_size=11,
                                  outlier_prob=task["outlier_prob"], precision=400)
        runs = []
        most = 0
        for _rep in range(3):
            g = np.random.default_rng(task["run_seed"])
            with contextlib.redirect_stdout(io.StringIO()):
                r = prun.run_phyclone_chain(1, False, task["alpha"], data, float("inf"), task["iters"], 8, 1, 1,
                                            task["outlier_prob"], 1000, task["proposal"], 0.5, g, smp, 1, 0, 0.7)
            seq = []
            for e in r["trace"]:
                t = Tree.from_dict(e["tree"])
                most = max(most, len(t.nodes))
                seq.append((int(e["iter"]), float(e["alpha"]).hex(), float(e["log_p_one"]).hex(), gen.key_str(gen.tree_key(t))))
            runs.append(seq)
            part.count("evaluations")
            part.count("repeated_many_clone_chains")
        part.maxi("most_clones_in_a_repeated_chain", most)
        part.see("repeat|%s|%d|%s" % (task["proposal"], task["n_mut"], task["alpha"]))
        for other in runs[1:]:
            if other != runs[0]:
                i = next((j for j, (x, y) in enumerate(zip(other, runs[0])) if x != y), None)
                part.violation("seeded chain is not reproducible: two runs of the same seeded chain in one process differ "
                               "(many clones, frequent subtree updates)",
                               {"task": task, "first_differing_entry": i, "a": runs[0][i] if i is not None else None,
                                "b": other[i] if i is not None else None, "most_clones": most})
                break
        part.sample({"task": task, "entries": len(runs[0]), "most_clones": most}, limit=1)
    except Exception as e:
        et, where, msg = describe_exception(e)
        if where == "outside-repo":
            import traceback
            part.inconc("harness error: " + traceback.format_exc()[-700:])
        else:
            part.count("repeat_runs_failed_owned_by_C19")
    finally:
        shutil.rmtree(tmp, ignore_errors=True)
    return None, part


def hashseed_task(task):
    """The same seeded chain on string-named synthetic data in child interpreters with different PYTHONHASHSEED."""
    from vlib.harness import Partial

    part = Partial()
    cfg = task["cfg"]
    outs = []
    for h in task["hashseeds"]:
        env = harness.child_env({"PYTHONHASHSEED": str(h)})
        try:
            p = subprocess.run([harness.PYTHON, "-m", "vlib.c18_child", json.dumps(cfg)], env=env, cwd=harness.VERIF_DIR,
                               stdout=subprocess.PIPE, stderr=subprocess.PIPE, timeout=900, text=True)
        except subprocess.TimeoutExpired:
            part.inconc("hash-seed child watchdog fired")
            return None, part
        if p.returncode != 0:
            part.count("hashseed_children_failed_owned_by_C19")
            return None, part
        outs.append(json.loads(p.stdout.strip().splitlines()[-1]))
        part.count("evaluations")
        part.count("hashseed_children")
    part.see("hashseed|%s|%s|%s" % (cfg["proposal"], cfg["outlier_prob"], cfg["n"]))
    part.count("hashseed_entries_with_2_outliers_below_an_internal_clone",
               outs[0]["stats"]["entries_with_2_outliers_and_depth"])
    for o in outs[1:]:
        part.count("hashseed_comparisons")
        if o["fp"] != outs[0]["fp"]:
            first = next((i for i, (x, y) in enumerate(zip(o["fp"], outs[0]["fp"])) if x != y), None)
            part.violation("seeded chain is not reproducible: its trace depends on the interpreter's hash seed",
                           {"cfg": cfg, "hashseeds": [outs[0]["hashseed"], o["hashseed"]], "first_differing_entry": first,
                            "a": outs[0]["fp"][first] if first is not None else None,
                            "b": o["fp"][first] if first is not None else None})
            break
    part.sample({"cfg": cfg, "hashseeds": task["hashseeds"], "stats": outs[0]["stats"]}, limit=1)
    return None, part


def dispatch(task):
    return {"cli": run_task, "hashseed": hashseed_task, "inproc": inproc_task, "shared": shared_process_task, "repeat": repeat_task}[task["kind"]](task)


def environments(chains, quick):
    envs = [{"name": "reference", "hashseed": 0}]
    envs.append({"name": "hashseed 12345", "hashseed": 12345, "nice": True})
    envs.append({"name": "hashseed random, one core", "hashseed": "random", "one_core": True})
    envs.append({"name": "assertions off (python -O)", "hashseed": 0, "optimize": True})
    if chains > 1:
        # reverse the completion order: the lower the chain number the later it finishes
        envs.append({"name": "reversed completion", "hashseed": 1,
                     "delays": {"finish_after": {str(c): list(range(c + 1, chains)) for c in range(chains - 1)}}})
        # and the opposite, forced as well (the natural order of a loaded machine may coincide with either)
        envs.append({"name": "ascending completion", "hashseed": 0,
                     "delays": {"finish_after": {str(c): list(range(0, c)) for c in range(1, chains)},
                                "start": {str(chains - 1): 1.5}}})
    else:
        envs.append({"name": "hashseed 1", "hashseed": 1})
    if not quick:
        envs.append({"name": "hashseed 77 nice one core", "hashseed": 77, "nice": True, "one_core": True})
        if chains > 1:
            envs.append({"name": "last chain first", "hashseed": 3,
                         "delays": {"finish_after": {str(c): [chains - 1] for c in range(chains - 1)}}})
    return envs


def run(ctx):
    quick = ctx.tier == "quick"
    ctx.rule = ("real `phyclone run --seed S` subprocesses: configurations proposal x outliers x clustered/unclustered "
                "(string mutation ids) x chains in {1,2,4}; each run under a reference environment and under perturbed "
                "ones (hash seeds 1/12345/random, one core via taskset, nice, concurrent load, failpoint delays reversing "
                "and rotating chain completion, a failpoint perturbing every clock reading on grids 300 / 501); per chain exact equality of (iter, alpha, log_p_one bits, tree key, "
                "labels); plus in-process pairs of the same seeded chain under different ambient random state (numpy global "
                "RandomState, random module) with cold caches, over small configurations that visit rare branches; "
                "the same seeded chain three times in one process on 12-16 shallow mutations with subtree updates (a dozen clones); chains of one run executed one after another in one process in several orders (a pool worker serving two chains); run seeds include 0 and 2^32+5; distinct = (configuration, environment)")
    ctx.assumptions = ["`time` entries are excluded", "same machine, same library versions for all runs of a comparison"]
    cfgs = [
        {"id": 0, "proposal": "semi-adapted", "outlier_prob": 0.1, "clustered": False, "chains": 2, "n_mut": 5, "iters": 6,
         "subtree": 0.3, "run_seed": 11 + ctx.seed},
        {"id": 1, "proposal": "fully-adapted", "outlier_prob": 0.0, "clustered": True, "chains": 1, "n_mut": 7, "iters": 6,
         "subtree": 0.0, "run_seed": 0},  # the smallest seed the command line accepts
        {"id": 2, "proposal": "bootstrap", "outlier_prob": 0.2, "clustered": True, "chains": 4, "n_mut": 6, "iters": 5,
         "subtree": 0.5, "run_seed": 123 + ctx.seed},
    ]
    if not quick:
        k = 3
        for prop in ("semi-adapted", "fully-adapted", "bootstrap"):
            for op in (0.0, 0.2):
                for cl in (False, True):
                    cfgs.append({"id": k, "proposal": prop, "outlier_prob": op, "clustered": cl, "chains": [1, 2, 4][k % 3],
                                 "n_mut": 4 + k % 4, "iters": 6, "subtree": [0.0, 0.4][k % 2], "run_seed": 1000 + k + ctx.seed})
                    k += 1
    # hash-seed stress: many outliers, frequent subtree updates, string ids -- any set / dict-of-strings iteration
    # order that reaches the sampler shows up as a trace that depends on PYTHONHASHSEED
    stress = [{"id": 100, "proposal": "semi-adapted", "outlier_prob": 0.5, "clustered": False, "chains": 1, "n_mut": 10,
               "iters": 40, "subtree": 0.7, "run_seed": 77 + ctx.seed, "stress": True, "junk_from": 5}]
    if not quick:
        stress.append({"id": 101, "proposal": "fully-adapted", "outlier_prob": 0.3, "clustered": True, "chains": 1,
                       "n_mut": 12, "iters": 40, "subtree": 0.5, "run_seed": 78 + ctx.seed, "stress": True, "junk_from": 5})
        stress.append({"id": 102, "proposal": "bootstrap", "outlier_prob": 0.5, "clustered": False, "chains": 2,
                       "n_mut": 9, "iters": 40, "subtree": 1.0, "run_seed": 79 + ctx.seed, "stress": True, "junk_from": 5})
    # fewer cores than chains (one core, two cores) against all cores, on a longer run with deep coverage: anything that
    # makes a chain's arithmetic depend on which process ran before it in the same worker, or on the worker count
    stress.append({"id": 110, "proposal": "semi-adapted", "outlier_prob": 0.0, "clustered": False, "chains": 3, "n_mut": 6,
                   "iters": 80, "subtree": 0.2, "run_seed": 31 + ctx.seed, "stress": "cores", "branching": True,
                   "density": "binomial", "grid": 101, "particles": 8})
    # clocks: the same seed with every clock reading perturbed (seeded drift failpoint), on grids between the default and
    # the FFT switch and at the default -- anything tuned, scheduled or cut short by measured time shows up as a
    # different trace
    for j, (grid, nm) in enumerate([(300, 5), (501, 4)] + ([] if quick else [(101, 6), (257, 5), (999, 3), (1000, 3)])):
        stress.append({"id": 120 + j, "proposal": ["semi-adapted", "fully-adapted"][j % 2], "outlier_prob": 0.0, "clustered": False,
                       "chains": 1 + j % 2, "n_mut": nm, "iters": 5, "subtree": 0.2, "run_seed": 41 + j + ctx.seed,
                       "stress": "clock", "grid": grid, "particles": 4, "branching": j % 2 == 0})
    # boundary values of the seed itself
    stress.append({"id": 130, "proposal": "semi-adapted", "outlier_prob": 0.1, "clustered": False, "chains": 2, "n_mut": 4,
                   "iters": 4, "subtree": 0.3, "run_seed": 0, "stress": "seed"})
    stress.append({"id": 131, "proposal": "bootstrap", "outlier_prob": 0.0, "clustered": False, "chains": 1, "n_mut": 4,
                   "iters": 4, "subtree": 0.0, "run_seed": 2 ** 32 + 5 + ctx.seed, "stress": "seed"})
    cfgs = cfgs + stress
    tasks = []
    for cfg in cfgs:
        envs = environments(cfg["chains"], quick)
        if cfg.get("stress") == "cores":
            envs = [{"name": "all cores", "hashseed": 0}, {"name": "one core", "hashseed": 0, "one_core": True},
                    {"name": "two cores", "hashseed": 0, "cores": 2}]
        elif cfg.get("stress") == "seed":
            envs = [{"name": "hashseed 0", "hashseed": 0}, {"name": "hashseed 0 again", "hashseed": 0},
                    {"name": "hashseed 1", "hashseed": 1}]
        elif cfg.get("stress") == "clock":
            envs = [{"name": "real clocks", "hashseed": 0}] + [
                {"name": "clock drift %d" % k, "hashseed": 0, "clock_skew": k} for k in (1, 2, 3, 4, 5)]
        elif cfg.get("stress"):
            envs = [{"name": "hashseed %s" % h, "hashseed": h} for h in (0, 1, 2, 3)]
        for env in envs:
            tasks.append({"seed": ctx.seed, "cfg": cfg, "env": env, "slot": len(tasks)})
    itasks = [{"kind": "inproc", "seed": ctx.seed, "shard": i, "count": 12 if quick else 150} for i in range(16)]
    htasks = []
    for i in range(10 if quick else 32):
        htasks.append({"kind": "hashseed", "hashseeds": [0, 1, 2, 3] if i % 2 == 0 else [0, 12345, "random"],
                       "cfg": {"data_seed": ctx.seed * 100 + i, "run_seed": 500 + i, "n": [6, 8, 5][i % 3], "D": 1 + i % 2,
                               "kind": ["moderate", "smooth"][i % 2], "outlier_prob": [0.3, 0.5][i % 2],
                               "proposal": ["semi-adapted", "fully-adapted", "bootstrap"][i % 3], "subtree": [0.7, 1.0][i % 2],
                               "iters": 60, "particles": 4}})
    for t in tasks:
        t["kind"] = "cli"
    stasks = [{"kind": "shared", "seed": ctx.seed, "shard": i, "n_mut": [6, 7, 5][i % 3], "grid": [101, 11][i % 2], "iters": 60,
               "proposal": ["semi-adapted", "fully-adapted", "bootstrap"][i % 3], "run_seed": 31 + i + ctx.seed}
              for i in range(4 if quick else 24)]
    rtasks = [{"kind": "repeat", "seed": ctx.seed, "shard": i, "n_mut": [14, 12, 16][i % 3], "alpha": [1000.0, 100.0][i % 2],
               "iters": 250, "proposal": ["semi-adapted", "fully-adapted", "bootstrap"][i % 3], "outlier_prob": [0.0, 0.0, 1e-3][i % 3],
               "run_seed": 1 + i + ctx.seed} for i in range(6 if quick else 32)]
    all_results = ctx.map("checks.c18", "dispatch", tasks + htasks + itasks + stasks + rtasks, timeout=2400)
    results = all_results[: len(tasks)]
    by_cfg = {}
    for t, r in zip(tasks, results):
        if r is not None:
            by_cfg.setdefault(t["cfg"]["id"], []).append((t["env"], r))
    for cfg in cfgs:
        runs = by_cfg.get(cfg["id"], [])
        if len(runs) < 2:
            ctx.inconc("configuration %d: fewer than two completed runs" % cfg["id"])
            continue
        ref_env, ref = runs[0]
        orders = set()
        for env, r in runs:
            ctx.see("cfg%d|%s" % (cfg["id"], env["name"]))
            if r["completion_order"]:
                orders.add(tuple(r["completion_order"]))
        ctx.extra.setdefault("completion_orders_seen", {})["cfg%d (%d chains)" % (cfg["id"], cfg["chains"])] = sorted(
            list(o) for o in orders)
        ctx.extra.setdefault("hash_seeds_seen", sorted(set(str(e["hashseed"]) for e, _ in runs)))
        if cfg["chains"] > 1 and len(orders) < 2 and not cfg.get("stress"):
            ctx.inconc("configuration %d: only one completion order of the parallel chains was observed" % cfg["id"])
        for env, r in runs[1:]:
            ctx.count("comparisons")
            if r["names"] != ref["names"]:
                ctx.violation("data points differ between two runs of the same input", {"cfg": cfg, "env": env["name"]})
                continue
            if sorted(r["fp"].keys()) != sorted(ref["fp"].keys()):
                ctx.violation("set of chains differs between two seeded runs", {"cfg": cfg, "env": env["name"]})
                continue
            for ch in sorted(ref["fp"].keys()):
                a, b = ref["fp"][ch], r["fp"][ch]
                if a != b:
                    first = next((i for i, (x, y) in enumerate(zip(a, b)) if x != y), min(len(a), len(b)))
                    ctx.violation("seeded run is not reproducible: chain trace differs under another environment "
                                  "(hash seed / cores / chain scheduling / clock readings)",
                                  {"cfg": cfg, "reference_env": ref_env["name"], "env": env["name"], "chain": ch,
                                   "first_differing_entry": first,
                                   "reference": a[first] if first < len(a) else None,
                                   "other": b[first] if first < len(b) else None,
                                   "completion_order": r["completion_order"]})
                    break
        ctx.sample({"cfg": cfg, "environments": [e["name"] for e, _ in runs],
                    "completion_orders": sorted(list(o) for o in orders), "entries_per_chain": len(next(iter(ref["fp"].values())))})
    if ctx.counters.get("repeated_many_clone_chains", 0) < 12:
        ctx.inconc("too few repeated many-clone chains")
    if ctx.counters.get("chains_run_in_a_shared_process", 0) < 20:
        ctx.inconc("too few chains run in a shared process")
    if ctx.counters.get("hashseed_comparisons", 0) < 6:
        ctx.inconc("too few hash-seed comparisons")
    if ctx.counters.get("comparisons", 0) < 6:
        ctx.inconc("too few run comparisons")
    if ctx.counters.get("inprocess_pairs_visiting_a_tree_without_clones", 0) < 3:
        ctx.inconc("in-process differential runs never visited a tree without clones")
