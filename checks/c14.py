"""C14 -- memoised recursion and proposal results equal the unmemoised computation.

Monitor: vlib.cache_shadow on the children-convolution recursion, the pairwise convolution, the two per-parent proposal
caches and the cached new-clone tree, during (a) instrumented chain runs over many sweeps with the concentration update
on and the per-iteration clearing the run loop does, (b) synthetic call histories aimed at the key scheme.
"""

import numpy as np

from vlib import gen

MIN_HITS = {"children_recursion": 1000, "pairwise_convolution": 300, "semi_proposal": 200, "full_proposal": 200,
            "new_clone_tree": 100}


def chain_task(task):
    from vlib import cache_shadow
    from vlib.harness import Partial, describe_exception
    import phyclone.run as prun

    cache_shadow.install()
    part = Partial()
    G = 11
    for c in range(task["count"]):
        rng = np.random.default_rng([task["seed"], task["shard"], c, 14])
        n = int(rng.integers(3, 8))
        D = 2
        op = [0.0, 0.2][c % 2]
        proposal = ["semi-adapted", "fully-adapted"][(c // 2) % 2] if c % 5 else "bootstrap"
        data = gen.make_data(rng, n, D, G, kind=["smooth", "moderate"][c % 2], outlier_prior=op)
        case = {"seed": task["seed"], "shard": task["shard"], "case": c, "n": n, "proposal": proposal, "outlier_prior": op}
        cache_shadow.reset()
        g = np.random.default_rng([task["seed"], task["shard"], c, 15])
        try:
            prun.run_phyclone_chain(2, True, 1.0, data, float("inf"), task["iters"], int(rng.choice([4, 8])), 1, 1, op,
                                    1000, proposal, 0.5, g, ["s0", "s1"], 1, 0, [0.0, 0.3][c % 2])
            part.count("evaluations")
            part.count("chain_runs")
            part.see("chain|%s|%s|%d" % (proposal, op, n))
            if len(part.samples) < 2:
                part.sample(dict(case, shadowed_calls={k: int(v) for k, v in cache_shadow.STATS.items()
                                                       if not k.endswith("_max_dev")}))
        except Exception as e:
            et, where, msg = describe_exception(e)
            if where == "outside-repo":
                import traceback
                part.inconc("harness error: " + traceback.format_exc()[-700:])
            else:
                part.violation("%s in %s during an instrumented chain run" % (et, where), dict(case, msg=msg))
        for fl in cache_shadow.FAILS:
            part.violation(fl["what"], dict(case, detail=fl["detail"]))
        for k, v in cache_shadow.STATS.items():
            if k.endswith("_max_dev"):
                part.maxi(k, v)
            else:
                part.count(k, int(v))
    return None, part


def synthetic_task(task):
    from vlib import cache_shadow
    from vlib.harness import Partial, describe_exception
    import phyclone.tree.utils as tu
    from phyclone.smc.kernels import FullyAdaptedKernel, SemiAdaptedKernel
    from phyclone.smc.swarm import Particle
    from phyclone.smc.utils import RootPermutationDistribution
    from phyclone.tree import FSCRPDistribution, TreeJointDistribution
    from phyclone.utils.dev import clear_proposal_dist_caches

    cache_shadow.install()
    cache_shadow.reset()
    part = Partial()
    D, G = 2, 11
    try:
        for c in range(task["count"]):
            rng = np.random.default_rng([task["seed"], task["shard"], c, 16])
            # ---- array caches: permutations, duplicates, one-ulp neighbours
            m = int(rng.integers(1, 6))
            kids = gen.make_values(rng, m, D, G, ["moderate", "smooth"][c % 2])
            if c % 3 == 0 and m >= 2:
                kids[1] = kids[0].copy()  # duplicated child
            for rep in range(3):
                order = list(range(m))
                rng.shuffle(order)
                tu.compute_log_S([kids[i] for i in order])
                part.count("evaluations")
            # growing child lists that extend an earlier list in the same fold order (a fold step served from the
            # pairwise cache must still be the value that was stored), forwards and backwards
            for seq in (kids, kids[::-1]):
                for k in range(1, len(seq) + 1):
                    tu.compute_log_S(seq[:k])
                    part.count("evaluations")
            extra = gen.make_values(rng, 2, D, G, "smooth")
            tu.compute_log_S(kids + extra[:1])
            tu.compute_log_S(kids + extra)
            # the same set of distinct arrays with different multiplicities, and one-ulp neighbours at the far end
            A, Dd = kids[0], gen.make_values(rng, 1, D, G, "moderate")[0]
            for combo in ([A], [A, A], [A, A, A], [A, Dd], [A, Dd, A], [Dd, A, A], [Dd], [Dd, Dd], [A]):
                tu.compute_log_S([x for x in combo])
                part.count("evaluations")
            tail = A.copy()
            tail[-1, -1] = np.nextafter(tail[-1, -1], -np.inf)
            tu.compute_log_S([tail, Dd])
            tu._convolve_two_children(tail, Dd)
            tu._convolve_two_children(A, A)
            tu._convolve_two_children(A, Dd)
            if m >= 2:
                tu._convolve_two_children(kids[0], kids[1])
                tu._convolve_two_children(kids[1], kids[0])
                bumped = kids[0].copy()
                bumped[0, 0] = np.nextafter(bumped[0, 0], np.inf)
                tu._convolve_two_children(bumped, kids[1])
                tu.compute_log_S([bumped] + kids[1:])
                tu.compute_log_S(kids)
                part.count("evaluations", 5)
            part.see("arrays|%d|%d" % (m, c % 3))
            # ---- proposal caches: alternating alpha with and without clearing, equal parents through different objects
            n = int(rng.integers(2, 6))
            op = [0.0, 0.2][c % 2]
            data = gen.make_data(rng, n + 1, D, G, kind="moderate", outlier_prior=op)
            f = gen.random_forest(rng, n, max_children=4, p_outlier=0.3 if op > 0 else 0.0)
            td = TreeJointDistribution(FSCRPDistribution(1.0))
            perm = RootPermutationDistribution() if c % 4 < 2 else None
            for kcls in (SemiAdaptedKernel, FullyAdaptedKernel):
                kernel = kcls(td, np.random.default_rng(c), outlier_proposal_prob=0.1 if op > 0 else 0.0, perm_dist=perm)
                t1, _ = gen.build_tree(f, data)
                t2, _ = gen.build_tree(f, data)  # equal as a tree, a different object
                t3, _ = gen.build_tree(f, data, child_order_rng=rng)  # same tree, possibly other sibling order
                parents = [Particle(0, None, t, td, perm) for t in (t1, t2, t3)]
                alphas = [1.0, 2.5, 1.0, 0.3, 2.5]
                for i, alpha in enumerate(alphas):
                    td.prior.alpha = alpha
                    if (c + i) % 3 == 0:
                        clear_proposal_dist_caches()
                    for p, t in zip(parents, (t1, t2, t3)):
                        prop = kernel.get_proposal_distribution(data[n], p, t.copy() if i % 2 else None)
                        part.count("evaluations")
                        if kcls is SemiAdaptedKernel and len(p.tree_roots) > 0:
                            # drive the cached new-clone tree through the same rng path the sampler uses
                            kernel._rng = np.random.default_rng(i)
                            prop._rng = kernel._rng
                            for _ in range(3):
                                prop._propose_new_node()
                # a parent particle whose tree is re-assigned (as the subtree sampler re-assigns the trees of its swarm) and
                # which then serves as a parent again: the memoised result must follow the particle's current tree
                td.prior.alpha = 1.0
                g2 = gen.random_forest(rng, n, max_children=4, p_outlier=0.3 if op > 0 else 0.0)
                if g2.key() != f.key():
                    from phyclone.smc.swarm import TreeHolder
                    pr = parents[0]
                    kernel.get_proposal_distribution(data[n], pr, None)
                    pr.tree = TreeHolder(gen.build_tree(g2, data)[0], td, perm)
                    kernel.get_proposal_distribution(data[n], pr, None)
                    part.count("evaluations", 2)
                    part.count("reassigned_parent_particles")
                part.see("proposal|%s|%s|%s" % (kcls.__name__, op, gen.key_str(f.key())))
                td.prior.alpha = 1.0
    except Exception as e:
        et, where, msg = describe_exception(e)
        if where == "outside-repo":
            import traceback
            part.inconc("harness error: " + traceback.format_exc()[-900:])
        else:
            part.violation("%s in %s during a synthetic call history" % (et, where), {"msg": msg})
    for fl in cache_shadow.FAILS:
        part.violation(fl["what"], {"detail": fl["detail"], "where": "synthetic call history", "shard": task["shard"]})
    for k, v in cache_shadow.STATS.items():
        if k.endswith("_max_dev"):
            part.maxi(k, v)
        else:
            part.count(k, int(v))
    return None, part


def library_task(task):
    """Library use (as the repository's own posterior tests do it): one kernel and one set of samplers serve many sweeps
    of whole-tree and subtree particle Gibbs, data-point and prune-regraft moves; the proposal caches are never cleared;
    the concentration is changed in place now and then."""
    from vlib import cache_shadow
    from vlib.harness import Partial, describe_exception
    from phyclone.mcmc import (DataPointSampler, ParticleGibbsSubtreeSampler, ParticleGibbsTreeSampler,
                               PruneRegraphSampler)
    from phyclone.smc.kernels import FullyAdaptedKernel, SemiAdaptedKernel
    from phyclone.smc.utils import RootPermutationDistribution
    from phyclone.tree import FSCRPDistribution, Tree, TreeJointDistribution
    from phyclone.utils.dev import clear_proposal_dist_caches

    cache_shadow.install()
    part = Partial()
    for c in range(task["count"]):
        rng = np.random.default_rng([task["seed"], task["shard"], c, 141])
        n = int(rng.integers(3, 7))
        op = [0.3, 0.0, 0.3][c % 3]
        data = gen.make_data(rng, n, 2, 11, kind=["moderate", "smooth"][c % 2], outlier_prior=op)
        kcls = [SemiAdaptedKernel, FullyAdaptedKernel][c % 2]
        case = {"seed": task["seed"], "shard": task["shard"], "case": c, "n": n, "outlier_prior": op,
                "kernel": kcls.__name__}
        cache_shadow.reset()
        clear_proposal_dist_caches()
        g = np.random.default_rng([task["seed"], task["shard"], c, 142])
        td = TreeJointDistribution(FSCRPDistribution(1.0))
        kernel = kcls(td, g, outlier_proposal_prob=0.1 if op > 0 else 0.0, perm_dist=RootPermutationDistribution())
        pg = ParticleGibbsTreeSampler(kernel, g, num_particles=4, resample_threshold=0.5)
        sub = ParticleGibbsSubtreeSampler(kernel, g, num_particles=4, resample_threshold=0.5)
        dps = DataPointSampler(td, g, outliers=op > 0)
        prg = PruneRegraphSampler(td, g)
        tree = Tree.get_single_node_tree(data)
        try:
            for sweep in range(task["sweeps"]):
                if c % 2 == 0:
                    move = [pg, sub][sweep % 2]  # whole-tree and subtree updates alternate, nothing copies in between
                else:
                    move = [pg, sub, sub, dps, prg, pg][int(g.integers(0, 6))]
                tree = move.sample_tree(tree)
                if c % 4 == 3 and sweep % 7 == 6:
                    td.prior.alpha = float(np.exp(g.normal()))
                part.count("evaluations")
            part.count("library_loops")
            part.see("library|%s|%s|%d" % (kcls.__name__, op, n))
        except Exception as e:
            et, where, msg = describe_exception(e)
            if where == "outside-repo":
                import traceback
                part.inconc("harness error: " + traceback.format_exc()[-700:])
            else:
                part.violation("%s in %s during a library-style sampler loop without cache clearing" % (et, where),
                               dict(case, msg=msg))
        for fl in cache_shadow.FAILS:
            part.violation(fl["what"] + " [library loop, caches never cleared]", dict(case, detail=fl["detail"]))
        for k, v in cache_shadow.STATS.items():
            if k.endswith("_max_dev"):
                part.maxi(k, v)
            else:
                part.count(k, int(v))
        clear_proposal_dist_caches()
    return None, part


def fft_task(task):
    """The two array caches on the FFT path (1000 grid points): evaluation histories over related child lists."""
    from vlib import cache_shadow
    from vlib.harness import Partial, describe_exception
    import phyclone.tree.utils as tu

    cache_shadow.install()
    cache_shadow.reset()
    tu.compute_log_S.cache_clear()
    tu._convolve_two_children.cache_clear()
    part = Partial()
    D, G = task["D"], task["G"]
    try:
        for c in range(task["count"]):
            rng = np.random.default_rng([task["seed"], task["shard"], c, 1000])
            kids = gen.make_values(rng, 4, D, G, ["smooth", "moderate"][c % 2])
            a, b, c2, d = kids
            for seq in ([a, b], [c2, a, b], [a, b], [b, a], [a, b, c2], [a, b, c2, d], [d, c2], [c2, d, a], [a, b]):
                tu.compute_log_S(seq)
                part.count("evaluations")
            tu._convolve_two_children(a, b)
            tu._convolve_two_children(c2, d)
            tu._convolve_two_children(a, b)
            part.see("fft|%d|%d|%d" % (D, G, c))
    except Exception as e:
        et, where, msg = describe_exception(e)
        if where == "outside-repo":
            import traceback
            part.inconc("harness error: " + traceback.format_exc()[-900:])
        else:
            part.violation("%s in %s during an FFT-path call history" % (et, where), {"msg": msg})
    for fl in cache_shadow.FAILS:
        part.violation(fl["what"] + " [FFT path, %d grid points]" % G, {"detail": fl["detail"], "shard": task["shard"]})
    for k, v in cache_shadow.STATS.items():
        if k.endswith("_max_dev"):
            part.maxi("fft_" + k, v)
        else:
            part.count("fft_" + k, int(v))
    tu.compute_log_S.cache_clear()
    tu._convolve_two_children.cache_clear()
    return None, part


def capacity_task(task):
    """Call histories longer than the caches are large (4096 child lists, 1024 pairs): entries are evicted, requested
    again, recomputed and evicted again; every call is shadowed by the unmemoised original."""
    from vlib import cache_shadow
    from vlib.harness import Partial, describe_exception
    import phyclone.tree.utils as tu

    cache_shadow.install()
    cache_shadow.reset()
    part = Partial()
    D, G = task["D"], task["G"]
    try:
        rng = np.random.default_rng([task["seed"], task["shard"], 1415])
        tu.compute_log_S.cache_clear()
        tu._convolve_two_children.cache_clear()
        pool = gen.make_values(rng, task["distinct"], D, G, "moderate")
        anchors = gen.make_values(rng, 3, D, G, "smooth")
        for rnd in range(2):
            for i, a in enumerate(pool):
                tu.compute_log_S([a, anchors[i % 3]])
                part.count("evaluations")
                if i % 5 == 0:
                    # recent (still cached), old (evicted) and very old keys again, in either argument order
                    for back in (3, 1500, 5000):
                        if i - back >= 0:
                            j = i - back
                            tu.compute_log_S([anchors[j % 3], pool[j]])
                            tu._convolve_two_children(pool[j], anchors[j % 3])
                            part.count("evaluations", 2)
        # the same with three and four children per list: the cached result of one pairwise step is itself the argument
        # of the next one, entries die (eviction, an occasional clear of the pairwise cache) and their memory is reused
        for rnd in range(2):
            for i, a in enumerate(pool):
                kids = [a, anchors[i % 3], anchors[(i + 1) % 3]] + ([pool[i - 1]] if i % 4 == 0 and i else [])
                tu.compute_log_S(kids)
                part.count("evaluations")
                if i % 7 == 0 and i >= 1200:
                    j = i - 1200
                    tu.compute_log_S([pool[j], anchors[j % 3], anchors[(j + 1) % 3]][::-1])
                    part.count("evaluations")
                if i % 2500 == 2499:
                    tu._convolve_two_children.cache_clear()
        info = tu.compute_log_S.cache_info()
        part.count("capacity_histories")
        part.maxi("children_recursion_cache_fill", info.currsize)
        if info.currsize < (info.maxsize or 0):
            part.inconc("capacity history did not fill the children-recursion cache (%d of %s)" % (info.currsize, info.maxsize))
        part.see("capacity|D%d|G%d|%d" % (D, G, task["distinct"]))
    except Exception as e:
        et, where, msg = describe_exception(e)
        if where == "outside-repo":
            import traceback
            part.inconc("harness error: " + traceback.format_exc()[-900:])
        else:
            part.violation("%s in %s during a call history longer than the caches" % (et, where), {"msg": msg})
    for fl in cache_shadow.FAILS:
        part.violation(fl["what"] + " [history longer than the cache]", {"detail": fl["detail"], "shard": task["shard"]})
    for k, v in cache_shadow.STATS.items():
        if k.endswith("_max_dev"):
            part.maxi("capacity_" + k, v)
        else:
            part.count("capacity_" + k, int(v))
    tu.compute_log_S.cache_clear()
    tu._convolve_two_children.cache_clear()
    return None, part


def collision_task(task):
    """Large argument populations: the cache keys of the two array caches (the memoisation's own key objects, hashed
    and compared exactly as its lru_cache does) are collected for several hundred thousand distinct realistic
    likelihood arrays; whenever two different arrays get equal keys the pair is played through the real memoised
    function back to back and compared with the unmemoised result."""
    from vlib import cache_shadow
    from vlib.harness import Partial, describe_exception
    import phyclone.tree.utils as tu

    part = Partial()
    try:
        from phyclone.utils.utils import NumpyArrayListHasher, NumpyTwoArraysHasher
    except ImportError:
        part.inconc("cache key classes not found")
        return None, part
    rng = np.random.default_rng([task["seed"], task["shard"], 1414])
    D, G = task["D"], task["G"]
    grid = np.clip(np.linspace(0, 1, G) / 2.0, 1e-3, 1 - 1e-3)
    lg, l1g = np.log(grid), np.log1p(-grid)
    n0 = int(rng.integers(20, 400))
    arrays = []
    n = n0
    while len(arrays) < task["population"]:
        xs = np.arange(0, n + 1)[:, None]
        rows = xs * lg[None, :] + (n - xs) * l1g[None, :]
        if D > 1:
            rows = np.stack([rows, np.roll(rows, 1, axis=0)][:D] + [rows[::-1]] * (D - 2), axis=1)
        else:
            rows = rows[:, None, :]
        arrays.extend(np.ascontiguousarray(r) for r in rows)
        n += 1
    arrays = arrays[:task["population"]]
    anchor = np.ascontiguousarray(rng.normal(size=(D, G)))
    try:
        for which in ("children_recursion", "pairwise_convolution"):
            seen = {}
            collisions = []
            for i, a in enumerate(arrays):
                k = NumpyArrayListHasher([a]) if which == "children_recursion" else NumpyTwoArraysHasher(a, anchor)
                k.clear_inputs()
                j = seen.setdefault(k, i)
                if j != i and not np.array_equal(arrays[j], a):
                    collisions.append((j, i))
            part.count("cache_keys_collected", len(arrays))
            part.count("evaluations", len(arrays))
            part.count("distinct_cache_keys_" + which, len(seen))
            part.count("key_collisions_between_different_arguments", len(collisions))
            part.see("keys|%s|D%d|G%d|n0=%d" % (which, D, G, n0))
            for j, i in collisions[:5]:
                tu.compute_log_S.cache_clear()
                tu._convolve_two_children.cache_clear()
                if which == "children_recursion":
                    tu.compute_log_S([arrays[j]])
                    got = tu.compute_log_S([arrays[i]])
                    ref = tu.compute_log_S.__wrapped__(np.array([arrays[i]], order="C"))
                else:
                    tu._convolve_two_children(arrays[j], anchor)
                    got = tu._convolve_two_children(arrays[i], anchor)
                    ref = tu._convolve_two_children.__wrapped__(arrays[i], anchor)
                ok, dev = cache_shadow.arrays_agree(got, ref)
                if not ok:
                    part.violation("%s: memoised result is that of a different argument (two different arrays share a "
                                   "cache key)" % which,
                                   {"shard": task["shard"], "D": D, "G": G, "first": arrays[j].tolist(),
                                    "second": arrays[i].tolist(), "max_dev": dev})
                    break
        part.sample({"population": len(arrays), "D": D, "G": G, "first_depth": n0, "last_depth": n}, limit=1)
    except Exception as e:
        et, where, msg = describe_exception(e)
        if where == "outside-repo":
            import traceback
            part.inconc("harness error: " + traceback.format_exc()[-900:])
        else:
            part.violation("%s in %s while keying cache arguments" % (et, where), {"msg": msg})
    tu.compute_log_S.cache_clear()
    tu._convolve_two_children.cache_clear()
    return None, part


def run(ctx):
    quick = ctx.tier == "quick"
    ctx.rule = ("every call of the five memoised entry points during instrumented chain runs (semi-/fully-adapted/bootstrap, "
                "outliers on/off, subtree updates, concentration update on, per-iteration clearing) and synthetic call "
                "histories (children in every order, duplicated children, one-ulp neighbours, alternating alpha with and "
                "without clearing, equal parents through different objects / sibling orders) is shadowed by the wrapped "
                "original on the same arguments at that moment; cache keys of 3e5-1.5e6 distinct likelihood arrays per "
                "process collected, any two different arrays with equal keys played through the memoised function; "
                "histories of 6000-20000 distinct argument lists (longer than the caches: eviction, re-request, recomputation); "
                "distinct = chain config / synthetic case")
    ctx.assumptions = ["one grid shape per process", "arrays compared on entries above 1e-60 of the row peak (data inside "
                       "the C02 window), 1e-9 relative"]
    shards = 16
    tasks = [{"seed": ctx.seed, "shard": i, "count": 4 if quick else 40, "iters": 10 if quick else 25} for i in range(shards)]
    ctx.map("checks.c14", "chain_task", tasks, timeout=3000)
    tasks = [{"seed": ctx.seed, "shard": i, "count": 10 if quick else 150} for i in range(shards)]
    ctx.map("checks.c14", "synthetic_task", tasks, timeout=3000)
    tasks = [{"seed": ctx.seed, "shard": i, "count": 3 if quick else 30, "sweeps": 30 if quick else 60} for i in range(16)]
    ctx.map("checks.c14", "library_task", tasks, timeout=3000)
    if ctx.counters.get("library_loops", 0) < 10:
        ctx.inconc("library-style loops did not run")
    tasks = [{"seed": ctx.seed, "shard": i, "count": 2 if quick else 10, "D": 1 + i % 2, "G": [1000, 1001][i % 2]}
             for i in range(4 if quick else 16)]
    ctx.map("checks.c14", "fft_task", tasks, timeout=3000)
    if ctx.counters.get("fft_pairwise_convolution_hits", 0) < 4:
        ctx.inconc("FFT-path pairwise cache hits not observed")
    tasks = [{"seed": ctx.seed, "shard": i, "distinct": 6000 if quick else 20000, "D": 1 + i % 2, "G": [5, 11][i % 2]}
             for i in range(2 if quick else 8)]
    ctx.map("checks.c14", "capacity_task", tasks, timeout=3000)
    if ctx.counters.get("capacity_histories", 0) < 2:
        ctx.inconc("capacity histories did not run")
    tasks = [{"seed": ctx.seed, "shard": i, "population": 300000 if quick else 1000000, "D": 1 + i % 2, "G": [5, 11, 3, 21][i % 4]}
             for i in range(4 if quick else 16)]
    ctx.map("checks.c14", "collision_task", tasks, timeout=3000)
    if ctx.counters.get("cache_keys_collected", 0) < 1000000:
        ctx.inconc("fewer than 1e6 cache keys collected")
    for name, m in MIN_HITS.items():
        if ctx.counters.get(name + "_hits", 0) < m:
            ctx.inconc("cache %s: only %d hits observed (minimum %d)" % (name, ctx.counters.get(name + "_hits", 0), m))
