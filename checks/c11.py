"""C11 -- trace summaries pick the true maximum and count topologies exactly.

Observed: files written by write_map_results (both modes) and write_topology_report (table + archive members) on
synthetic traces (1-4 chains inserted in every order, 0..40 entries, repeated / relabelled / sibling-shuffled copies of
the same tree, exact ties, chains of unequal length) and on traces of real runs.  Oracle: the reference summariser of
vlib.tracegen (groups entries by canonical key).
"""

import io
import itertools
import os
import shutil
import tarfile
import tempfile

import numpy as np

from vlib import gen, tracegen


def make_case(rng, c, allow_all_outlier=False):
    n = int(rng.integers(1, 6))
    D = int(rng.integers(1, 3))
    G = 11
    data = gen.make_data(rng, n, D, G, kind="smooth")
    samples = ["S%d" % i for i in range(D)]
    if c % 5 == 3:
        # identifiers outside ASCII (gene symbols with a middle dot, umlauts): more bytes than characters
        for dp in data:
            dp.name = "TP53\u00b7p.R%dH_%s" % (175 + dp.idx, dp.name)
        samples = ["Prim\u00e4rtumor", "Rezidiv\u2082", "M\u00e9tastase"][:D]
    pool = gen.all_forests(n, outliers=bool(c % 2)) if n <= 3 else [
        gen.random_forest(rng, n, p_outlier=0.2 if c % 2 else 0.0) for _ in range(8)]
    if not allow_all_outlier:
        pool = [f for f in pool if f.K > 0]
    k = int(rng.integers(1, min(len(pool), 6) + 1))
    long_trace = c % 8 == 5
    if long_trace:
        # a long trace with more than 256 distinct topologies and counts beyond one byte
        pool = [f for f in gen.all_forests(4, outliers=bool(c % 2)) if f.K > 0 or allow_all_outlier]
        if n != 4:
            n = 4
            data = gen.make_data(rng, n, D, G, kind="smooth")
        k = min(len(pool), int(rng.integers(270, 330)))
    forests = [pool[i] for i in rng.permutation(len(pool))[:k]]
    if long_trace:
        forests = forests + forests[:3] * 150  # three topologies recorded several hundred times each
    n_chains = int(rng.integers(1, 5))
    order = list(rng.permutation(n_chains))
    lens = [int(rng.integers(1, 41)) if rng.random() < 0.9 else 1 for _ in range(n_chains)]
    if long_trace:
        lens = [int(rng.integers(700, 1100)) for _ in range(n_chains)]
    scores = ["real", "synthetic"][c % 2]
    results = tracegen.make_trace(rng, data, samples, n_chains, lens, forests, scores=scores, tie_prob=0.3,
                                  chain_order=[int(x) for x in order])
    if c % 4 == 3 and n >= 3:
        # two *distinct* trees of the same shape and labelling (only the data sit in different clones), the same
        # number of times, with exactly tied scores: rows that agree in Newick string, count and score
        perm = list(range(n))
        perm[0], perm[1] = perm[1], perm[0]
        base = gen.AForest([[i] for i in range(n)], [None] + list(range(n - 1)))
        twin = gen.AForest([[perm[i]] for i in range(n)], [None] + list(range(n - 1)))
        tie = -3.25
        k = int(rng.integers(1, 3))
        for f in (base, twin):
            for _ in range(k):
                e = tracegen.make_trace(rng, data, samples, 1, 1, [f], scores="synthetic")[0]["trace"][0]
                e["tree"] = gen.build_tree(f, data)[0].to_dict()
                e["log_p_one"] = tie
                ch = int(rng.choice(list(results.keys())))
                results[ch]["trace"].append(e)
    if c % 6 == 4 and len(forests) >= 2:
        # special float values among the scores: every record of one topology scores minus infinity
        target = forests[int(rng.integers(0, len(forests)))].key()
        for r in results.values():
            for e in r["trace"]:
                if tracegen.entry_key(e) == target:
                    e["log_p_one"] = float("-inf")
    # readers take data / samples / clusters from chain 0: it must exist (it always does in a run)
    return data, samples, results, {"n": n, "D": D, "chains": n_chains, "insertion_order": [int(x) for x in order],
                                    "lens": lens, "scores": scores, "distinct_forests": k, "long": bool(long_trace),
                                    "minus_infinity_scores": bool(c % 6 == 4 and len(forests) >= 2)}


def trace_task(task):
    from vlib.harness import Partial, describe_exception
    from phyclone.process_trace import write_map_results, write_topology_report

    part = Partial()
    tmp = tempfile.mkdtemp(prefix="verif_c11_")
    try:
        for c in range(task["count"]):
            rng = np.random.default_rng([task["seed"], task["shard"], c, 11])
            if c == 0 and task.get("real", True):
                # a trace written by the real writer from real chain runs (unclustered input, string ids)
                import gzip
                import pickle
                from checks.c20 import build_trace

                path = build_trace(task["seed"] * 100 + task["shard"], 1 + task["shard"] % 3, False, tmp, iters=12)
                with gzip.GzipFile(path, "rb") as fh:
                    results = pickle.load(fh)
                data, samples = results[0]["data"], results[0]["samples"]
                desc = {"n": len(data), "D": len(samples), "chains": len(results), "insertion_order": list(results.keys()),
                        "lens": [len(r["trace"]) for r in results.values()], "scores": "real-run", "distinct_forests": None}
                part.count("real_run_traces")
            else:
                data, samples, results, desc = make_case(rng, c)
                path = os.path.join(tmp, "trace.pkl.gz")
                tracegen.write_trace(results, path)
            case = dict(desc, seed=task["seed"], shard=task["shard"], case=c)
            summ, total, best = tracegen.reference_summary(results)
            part.count("evaluations")
            part.count("entries", total)
            if desc.get("minus_infinity_scores"):
                part.count("traces_with_minus_infinity_scores")
            if desc.get("long"):
                part.count("long_traces")
                part.maxi("most_distinct_topologies_in_a_trace", len(summ))
                part.maxi("largest_topology_count", max(v["count"] for v in summ.values()))
            part.see("ch%d|k%d|%s|%d" % (desc["chains"], len(summ), desc["scores"], total))
            ties = sum(1 for s in summ.values() if s["max"] == best)
            if ties > 1:
                part.count("traces_with_tied_maximum")
            try:
                # ---------------- MAP, both modes
                for mode in ("joint-likelihood", "frequency"):
                    tab, nwk = os.path.join(tmp, "map.tsv"), os.path.join(tmp, "map.nwk")
                    write_map_results(path, tab, nwk, map_type=mode)
                    key = tracegen.table_key(tracegen.read_table(tab), open(nwk).read().strip(), data)
                    part.count("map_outputs")
                    if key not in summ:
                        part.violation("MAP output is not a tree of the trace", dict(case, mode=mode, tree=gen.key_str(key)))
                    elif mode == "joint-likelihood" and summ[key]["max"] != best:
                        part.violation("MAP command did not return a tree of maximal recorded log_p_one",
                                       dict(case, returned=gen.key_str(key), its_best=summ[key]["max"], maximum=best))
                    elif mode == "frequency" and summ[key]["count"] != max(s["count"] for s in summ.values()):
                        part.violation("frequency-mode MAP did not return a topology of maximal count",
                                       dict(case, returned=gen.key_str(key), its_count=summ[key]["count"],
                                            max_count=max(s["count"] for s in summ.values())))
                # ---------------- topology report + archive
                top = [None, 1, 2, 3][c % 4]
                if desc.get("long"):
                    # many topologies (two- and three-digit ranks): cuts below, at and above ten and a hundred
                    top = [2, 9, 10, 11, 25, 100, 101, 5][(c // 8 + task["shard"]) % 8]
                rep, arc = os.path.join(tmp, "rep.tsv"), os.path.join(tmp, "arc.tar.gz")
                if top is None:
                    write_topology_report(path, rep, topologies_archive=arc)
                else:
                    write_topology_report(path, rep, topologies_archive=arc, top_trees=top)
                df = tracegen.read_table(rep)
                part.count("report_rows", len(df))
                if len(df) != len(summ):
                    part.violation("topology report does not have one row per distinct tree",
                                   dict(case, rows=len(df), distinct=len(summ)))
                    continue
                if int(df["count"].sum()) != total:
                    part.violation("topology counts do not sum to the number of entries",
                                   dict(case, sum=int(df["count"].sum()), entries=total))
                sc = list(df["log_p_joint_max"])
                if any(sc[i] < sc[i + 1] for i in range(len(sc) - 1)):
                    part.violation("topology report rows are not ranked by score", dict(case, scores=sc))
                if list(df["topology_id"]) != ["t_%d" % i for i in range(len(df))]:
                    part.violation("topology ids are not t_0..t_k in rank order", dict(case, ids=list(df["topology_id"])))
                row_keys = {}
                for _, r in df.iterrows():
                    ch, i = int(r["chain_num"]), int(r["iter"])
                    if ch not in results or not (0 <= i < len(results[ch]["trace"])):
                        part.violation("topology row points outside the trace", dict(case, chain=ch, index=i))
                        continue
                    e = results[ch]["trace"][i]
                    k = tracegen.entry_key(e)
                    row_keys[r["topology_id"]] = k
                    s = summ[k]
                    if int(r["count"]) != s["count"]:
                        part.violation("topology count is not the number of entries with that tree",
                                       dict(case, tree=gen.key_str(k), reported=int(r["count"]), actual=s["count"]))
                    if abs(float(r["log_p_joint_max"]) - s["max"]) > 1e-12 * (1 + abs(s["max"])):  # text round trip
                        part.violation("topology score is not the maximum over the entries with that tree",
                                       dict(case, tree=gen.key_str(k), reported=float(r["log_p_joint_max"]), actual=s["max"]))
                    if e["log_p_one"] != s["max"]:
                        part.violation("topology row's chain/entry pointer does not lead to an entry attaining its score",
                                       dict(case, tree=gen.key_str(k), pointed=e["log_p_one"], maximum=s["max"]))
                    # the row's Newick must describe the pointed entry's tree shape
                    nk = tracegen.newick_key(tracegen.parse_newick(r["topology"]),
                                             {ix: str(lab) for ix, lab in
                                              __import__("phyclone.tree", fromlist=["Tree"]).Tree.from_dict(e["tree"]).labels.items()})
                    if nk != k:
                        part.violation("topology row's Newick string does not describe the entry it points to",
                                       dict(case, tree=gen.key_str(k), newick=r["topology"]))
                if len(set(row_keys.values())) != len(row_keys):
                    part.violation("two topology rows describe the same tree", dict(case))
                # archive: exactly ranks < top_trees, each member consistent with its row
                want = set(df["topology_id"]) if top is None else set(df["topology_id"][:top])
                members = {}
                with tarfile.open(arc, "r:gz") as tf:
                    for m in tf.getmembers():
                        tid, fname = m.name.split("/")
                        members.setdefault(tid, {})[fname] = tf.extractfile(m).read().decode()
                part.count("archive_members", len(members))
                if set(members) != want:
                    part.violation("archive does not hold exactly the requested top-ranked topologies",
                                   dict(case, top_trees=top, have=sorted(members), want=sorted(want)))
                import pandas as pd

                for tid, files in members.items():
                    if set(files) != {"%s_results_table.tsv" % tid, "%s.nwk" % tid}:
                        part.violation("archive member is incomplete", dict(case, topology=tid, files=sorted(files)))
                        continue
                    try:
                        tab = pd.read_csv(io.StringIO(files["%s_results_table.tsv" % tid]), sep="\t", keep_default_na=False)
                        listed = set((str(r["mutation_id"]), str(r["sample_id"])) for _, r in tab.iterrows())
                        wanted = set((str(dp.name), str(sm)) for dp in data for sm in samples)
                        if listed != wanted:
                            raise ValueError("table lists %d (mutation, sample) pairs, the trace has %d" % (len(listed), len(wanted)))
                        k = tracegen.table_key(tab, files["%s.nwk" % tid].strip(), data)
                    except (KeyError, ValueError, IndexError) as exc:
                        part.violation("archive member's table is incomplete or unreadable: the archive does not hold the "
                                       "requested topology", dict(case, topology=tid, problem=repr(exc)[:200]))
                        continue
                    if tid in row_keys and k != row_keys[tid]:
                        part.violation("archive member does not describe the tree of its report row",
                                       dict(case, topology=tid, member=gen.key_str(k), row=gen.key_str(row_keys[tid])))
                if len(part.samples) < 2:
                    part.sample(dict(case, distinct_trees=len(summ), entries=total, best=best))
            except Exception as e:
                et, where, msg = describe_exception(e)
                if where == "outside-repo":
                    import traceback
                    part.inconc("harness error: " + traceback.format_exc()[-900:])
                else:
                    part.violation("%s in %s while summarising a trace" % (et, where), dict(case, msg=msg))
    finally:
        shutil.rmtree(tmp, ignore_errors=True)
    return None, part


def run(ctx):
    quick = ctx.tier == "quick"
    ctx.rule = ("synthetic traces: 1-5 data points, 1-4 chains inserted in a random order, 1-40 entries per chain (unequal "
                "lengths), entries drawn with repetition from up to 6 distinct trees as plain / sibling-shuffled / "
                "relabelled / dict-round-tripped objects, real or synthetic scores with exact ties; MAP (both modes), "
                "topology report and archive (top_trees none/1/2/3) against the reference summariser; "
                "distinct = (#chains, #distinct trees, score kind, #entries)")
    ctx.assumptions = ["trees without any clone are exercised by C12 (table code), not here",
                       "chain 0 is always present (readers take data and samples from it)"]
    shards = 16
    tasks = [{"seed": ctx.seed, "shard": i, "count": 10 if quick else 600} for i in range(shards)]
    ctx.map("checks.c11", "trace_task", tasks, timeout=3000)
    ctx.map("checks.c11", "trace_task", [dict(t, shard=100 + t["shard"], count=max(3, t["count"] // 4), real=False) for t in tasks[:4]],
            timeout=3000, python_flags=("-O",))  # assertions off
    if ctx.counters.get("report_rows", 0) < 100 or ctx.counters.get("traces_with_tied_maximum", 0) < 3:
        ctx.inconc("too few report rows / tied maxima observed")
