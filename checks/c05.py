"""C05 -- emission likelihood grids implement the PyClone mutation model.

Observed: phyclone.data.pyclone.load_data(file, ...)[0][i].value / .outlier_prob / .outlier_prob_not on generated TSV
files, and the jitted densities called directly.  Oracle: vlib.refmodel.pyclone_log_emission (genotype enumeration +
scipy.stats binom / betabinom log-pmf mixture) at every grid point; normalisation over all alternate counts.
"""

import math
import os
import shutil
import tempfile

import numpy as np

from vlib import inputs, refmodel


def random_row(rng, mid, sid, extreme=False):
    major = int(rng.integers(1, 9))
    minor = int(rng.integers(0, major + 1))
    normal = int(rng.integers(1, 4))
    mode = int(rng.integers(0, 6))
    if mode == 0:
        depth = 0
    elif mode == 1 and extreme:
        depth = int(10 ** rng.uniform(4, 6))
    else:
        depth = int(10 ** rng.uniform(0, 3.3))
    amode = int(rng.integers(0, 5))
    alt = 0 if amode == 0 else (depth if amode == 1 else int(rng.integers(0, depth + 1)))
    t = [1.0, 1e-3, float(np.round(rng.uniform(0.05, 1.0), 4))][int(rng.integers(0, 3))]
    e = float(10 ** rng.uniform(-6, math.log10(0.49)))
    return {"mutation_id": mid, "sample_id": sid, "ref_counts": depth - alt, "alt_counts": alt, "major_cn": major,
            "minor_cn": minor, "normal_cn": normal, "tumour_content": t, "error_rate": e}


def file_task(task):
    from vlib.harness import Partial, describe_exception
    from phyclone.data.pyclone import load_data

    part = Partial()
    tmp = tempfile.mkdtemp(prefix="verif_c05_")
    try:
        for c in range(task["count"]):
            rng = np.random.default_rng([task["seed"], task["shard"], c, 5])
            n_mut = int(rng.integers(1, 6))
            D = int(rng.integers(1, 5))
            G = int(rng.choice([2, 3, 11, 21, 101, 201, 257, 301]))
            density = ["binomial", "beta-binomial"][c % 2]
            precision = float(10 ** rng.uniform(-1, 5))
            op = [0.0, 1e-4, 0.3][c % 3]
            clustered = c % 4 == 3
            rows = []
            sids = ["S%d" % s for s in range(D)] if c % 3 else [str(x) for x in [2, 10, 33, 100][:D]]
            for m in range(n_mut):
                for s in range(D):
                    rows.append(random_row(rng, "m%02d" % m, sids[s], extreme=c % 7 == 0))
            in_file = os.path.join(tmp, "in.tsv")
            inputs.write_table(rows, in_file)
            cluster_file = None
            assign = None
            cl_probs = None
            assign_loss = False
            low, high = 1e-4, 0.4
            chrom = False
            if clustered:
                k = int(rng.integers(1, n_mut + 1))
                sel = c // 4 + task["shard"]
                cl_probs = [0.0, 0.05, 0.5][: max(1, k)] if sel % 3 == 2 else None
                # loss-probability options: assigned by the program (from mutation positions if a 'chrom' column exists,
                # else the documented fallback to the low value), user values for low / high
                assign_loss = sel % 2 == 1
                if assign_loss:
                    low = [1e-4, 0.02, 0.3][(sel // 2) % 3]
                    high = [0.4, 0.9][(sel // 6) % 2]
                    chrom = (sel // 4) % 2 == 1
                    if chrom:
                        for r in rows:
                            r["chrom"] = "chr%d" % (1 + (int(r["mutation_id"][1:]) * 7) % 22)
                        inputs.write_table(rows, in_file)
                crow, assign = inputs.make_clusters(rng, rows, k, outlier_prob_col=cl_probs, textual_ids=sel % 7 == 4)
                listed_extra = {}
                if sel % 5 in (1, 3) and not (assign_loss and chrom):
                    # the cluster file also lists mutations the loader does not keep (absent from the data file / major
                    # copy number zero in a sample): the cluster's size is what the cluster file says, its grid the sum
                    # over the members that were loaded
                    cid0 = crow[int(rng.integers(0, len(crow)))]["cluster_id"]
                    tmpl = [r for r in crow if r["cluster_id"] == cid0][0]
                    for s_ in sids:
                        crow.append(dict(tmpl, mutation_id="zz_absent", sample_id=s_))
                    listed_extra[cid0] = 1
                    if sel % 5 == 3:
                        for si, s_ in enumerate(sids):
                            r0 = random_row(rng, "zz_lost", s_)
                            if si == 0:
                                r0["major_cn"], r0["minor_cn"] = 0, 0
                            if chrom:
                                r0["chrom"] = "chr1"
                            rows.append(r0)
                            crow.append(dict(tmpl, mutation_id="zz_lost", sample_id=s_))
                        listed_extra[cid0] = 2
                        inputs.write_table(rows, in_file)
                        rows = [r for r in rows if r["mutation_id"] != "zz_lost"]
                    part.count("cluster_files_listing_unloaded_mutations")
                cluster_file = os.path.join(tmp, "cl.tsv")
                inputs.write_table(crow, cluster_file)
            case = {"seed": task["seed"], "shard": task["shard"], "case": c, "n_mut": n_mut, "D": D, "G": G,
                    "density": density, "precision": precision, "outlier_prob": op, "clustered": clustered,
                    "assign_loss_prob": assign_loss, "low_loss_prob": low, "high_loss_prob": high, "chrom_column": chrom}
            try:
                data, samples = load_data(in_file, np.random.default_rng(0), low, high, assign_loss, cluster_file=cluster_file,
                                          density=density, grid_size=G, outlier_prob=op, precision=precision)
            except Exception as e:
                et, where, msg = describe_exception(e)
                part.violation("%s in %s while loading a valid input table" % (et, where), dict(case, msg=msg))
                continue
            grid = np.linspace(0, 1, G)
            by_mut = {}
            for r in rows:
                by_mut.setdefault(r["mutation_id"], {})[r["sample_id"]] = r
            ref_grid = {}
            tol_of = {}
            for mid, per_s in by_mut.items():
                g = np.zeros((D, G))
                tol = 0.0
                for si, sid in enumerate(sorted(per_s)):
                    r = per_s[sid]
                    for gi, f in enumerate(grid):
                        g[si, gi] = refmodel.pyclone_log_emission(r["ref_counts"], r["alt_counts"], r["major_cn"],
                                                                  r["minor_cn"], r["normal_cn"], r["tumour_content"],
                                                                  r["error_rate"], f, density, precision)
                    tol = max(tol, 1e-6 + 1e-10 * (r["ref_counts"] + r["alt_counts"]))
                ref_grid[mid] = g
                tol_of[mid] = tol
            part.count("evaluations")
            part.count("grid_cells_compared", n_mut * D * G)
            part.see("%s|G%d|D%d|cl%s|op%s|%d" % (density, G, D, clustered, op, c))
            if not clustered:
                exp_names = sorted(by_mut)
                if [dp.name for dp in data] != exp_names:
                    part.violation("data points are not the mutations in sorted order", dict(case, names=[str(d.name) for d in data]))
                    continue
                for dp in data:
                    dev = float(np.max(np.abs(dp.value - ref_grid[dp.name])))
                    part.maxi("max_emission_dev", dev)
                    if not dev <= tol_of[dp.name]:
                        si, gi = np.unravel_index(int(np.argmax(np.abs(dp.value - ref_grid[dp.name]))), dp.value.shape)
                        r = by_mut[dp.name][sorted(by_mut[dp.name])[si]]
                        part.violation("emission grid differs from the PyClone %s mixture" % density,
                                       dict(case, row=r, ccf=float(grid[gi]), reported=float(dp.value[si, gi]),
                                            reference=float(ref_grid[dp.name][si, gi])))
                        break
                    exp = (0, 0.0) if op == 0 else (math.log(op), math.log1p(-op))
                    if not (abs(dp.outlier_prob - exp[0]) <= 1e-12 and abs(dp.outlier_prob_not - exp[1]) <= 1e-12):
                        part.violation("outlier prior terms are not log p and log(1-p)",
                                       dict(case, got=[float(dp.outlier_prob), float(dp.outlier_prob_not)], expected=exp))
                        break
            else:
                members = {}
                for mid, cid in assign.items():
                    members.setdefault(cid, []).append(mid)
                if [dp.name for dp in data] != [str(cid) for cid in sorted(members)]:
                    part.violation("clustered data points are not the clusters in sorted order",
                                   dict(case, names=[str(d.name) for d in data]))
                    continue
                for dp, cid in zip(data, sorted(members)):
                    ref = sum(ref_grid[m] for m in members[cid])
                    tol = sum(tol_of[m] for m in members[cid])
                    dev = float(np.max(np.abs(dp.value - ref)))
                    part.maxi("max_cluster_dev", dev)
                    if not dev <= tol:
                        part.violation("clustered data point is not the sum of its members' grids",
                                       dict(case, cluster=cid, members=members[cid], max_dev=dev))
                        break
                    size = len(members[cid]) + listed_extra.get(cid, 0)
                    p = op
                    allowed = None
                    if assign_loss:
                        part.count("assigned_loss_prob_points")
                        if cl_probs is not None:
                            p = cl_probs[inputs.prob_index(cid, len(cl_probs))]  # the user's column is taken as it is
                        elif chrom:
                            allowed = [low, high]  # assigned from the data: one of the two configured values
                        else:
                            p = low  # documented fallback when no position data exist
                    elif cl_probs is not None:
                        p = cl_probs[inputs.prob_index(cid, len(cl_probs))]  # same rule as inputs.make_clusters
                        if op == 0:
                            p = 0.0
                        elif p == 0:
                            p = op
                    if allowed is not None:
                        hits = [q for q in allowed if abs(dp.outlier_prob - math.log(q) * size) <= 1e-9
                                and abs(dp.outlier_prob_not - math.log1p(-q) * size) <= 1e-9]
                        if not hits:
                            part.violation("cluster outlier prior terms are not size*log p and size*log(1-p) for either "
                                           "configured loss probability",
                                           dict(case, cluster=cid, size=size, got=[float(dp.outlier_prob), float(dp.outlier_prob_not)]))
                            break
                        part.count("cluster_points_checked")
                        continue
                    exp = (0, 0.0) if p == 0 else (math.log(p) * size, math.log1p(-p) * size)
                    if not (abs(dp.outlier_prob - exp[0]) <= 1e-9 and abs(dp.outlier_prob_not - exp[1]) <= 1e-9):
                        part.violation("cluster outlier prior terms are not size*log p and size*log(1-p)",
                                       dict(case, cluster=cid, size=size, p=p,
                                            got=[float(dp.outlier_prob), float(dp.outlier_prob_not)], expected=exp))
                        break
                    part.count("cluster_points_checked")
            if len(part.samples) < 2:
                part.sample(dict(case, first_row=rows[0]))
    finally:
        shutil.rmtree(tmp, ignore_errors=True)
    return None, part


def norm_task(task):
    """Summed over all alternate counts 0..d the density is one at each grid point (direct calls of the jitted pdfs)."""
    from scipy.special import logsumexp
    from vlib.harness import Partial, describe_exception
    from phyclone.data.pyclone import (SampleDataPoint, get_major_cn_prior, log_pyclone_beta_binomial_pdf,
                                       log_pyclone_binomial_pdf)

    part = Partial()
    try:
        for c in range(task["count"]):
            rng = np.random.default_rng([task["seed"], task["shard"], c, 55])
            major = int(rng.integers(1, 9))
            minor = int(rng.integers(0, major + 1))
            normal = int(rng.integers(1, 4))
            d = int(rng.integers(0, 301))
            t = float(rng.uniform(1e-3, 1.0)) if c % 3 else 1.0
            e = float(10 ** rng.uniform(-6, math.log10(0.49)))
            s = float(10 ** rng.uniform(-1, 5))
            cn, mu, log_pi = get_major_cn_prior(major, minor, normal, error_rate=e)
            for f in (0.0, float(rng.random()), 1.0):
                for dens in ("binomial", "beta-binomial"):
                    ll = []
                    for alt in range(d + 1):
                        sdp = SampleDataPoint(d - alt, alt, cn, mu, log_pi, t)
                        ll.append(log_pyclone_binomial_pdf(sdp, f) if dens == "binomial"
                                  else log_pyclone_beta_binomial_pdf(sdp, f, s))
                    tot = float(np.exp(logsumexp(ll)))
                    part.count("evaluations")
                    part.count("normalisation_sums")
                    part.maxi("max_normalisation_dev", abs(tot - 1))
                    if not abs(tot - 1) <= 1e-9 * max(1, d):
                        part.violation("%s emission density does not sum to one over all alternate counts" % dens,
                                       {"major": major, "minor": minor, "normal": normal, "depth": d, "tumour_content": t,
                                        "error_rate": e, "precision": s, "ccf": f, "sum": tot})
            part.see("norm|%d|%d|%d|%d" % (major, minor, normal, d))
    except Exception as e:
        et, where, msg = describe_exception(e)
        part.violation("%s in %s while evaluating the emission density" % (et, where), {"msg": msg})
    return None, part


def run(ctx):
    quick = ctx.tier == "quick"
    ctx.rule = ("generated input files: 1-5 mutations x 1-4 samples, read counts incl. depth 0, alt in {0,d}, depth to 1e6, "
                "major 1-8, minor 0..major, normal 1-3, tumour content incl. 1.0 and 1e-3, error rate 1e-6..0.49, both "
                "densities, precision 0.1..1e5, grids 2..301, with/without cluster file and cluster outlier column, loss "
                "probability assigned by the program (with / without a chrom column, low 1e-4/0.02/0.3, high 0.4/0.9); every "
                "grid cell against the reference mixture; normalisation over all alternate counts for depth<=300; "
                "distinct = generated file / copy-number state")
    ctx.assumptions = ["tolerance 1e-6 + 1e-10*depth absolute in log space (lgamma cancellation)",
                       "cluster size = number of mutations the cluster file lists for the cluster (also those the loader drops)",
                       "scipy.stats.binom / betabinom log-pmf as reference primitives"]
    shards = 16
    tasks = [{"seed": ctx.seed, "shard": i, "count": 14 if quick else 800} for i in range(shards)]
    ctx.map("checks.c05", "file_task", tasks, timeout=3000)
    ctx.map("checks.c05", "file_task", [dict(t, shard=100 + t["shard"], count=max(3, t["count"] // 5)) for t in tasks[:4]], timeout=3000,
            python_flags=("-O",))  # assertions off
    tasks = [{"seed": ctx.seed, "shard": i, "count": 6 if quick else 100} for i in range(shards)]
    ctx.map("checks.c05", "norm_task", tasks, timeout=3000)
    if ctx.counters.get("grid_cells_compared", 0) < 2000 or ctx.counters.get("cluster_points_checked", 0) < 10:
        ctx.inconc("too few cells / cluster points compared")
