"""C16 -- the consensus tree contains exactly the clades with majority support.

Observed: get_consensus_tree + get_tree_from_consensus_graph, and the consensus command's TABLE + TREE, on synthetic
traces, thresholds {0.5,0.6,0.75,0.9,1.0}, both weightings.  Oracle: reference supports (fraction of sampled trees, or
normalised exp(max score) x count share per distinct tree); clades with support strictly above the threshold.
"""

import math
import os
import shutil
import tempfile

import numpy as np

from vlib import gen, monitors, tracegen

THRESHOLDS = [0.5, 0.6, 0.75, 0.9, 1.0]


def structured_forests(rng, n, c):
    """Forest mixtures aimed at the algorithm: retained clades fully covered by retained children (empty own-mutation
    sets: one, two, nested), nothing retained, identical trees, one dominant tree."""
    idx = list(range(n))
    mode = c % 6
    if mode == 0 and n >= 4:
        # supports 2/3 for {0,1},{0},{1},{2,3},{2},{3}: two retained clades fully covered by retained children
        rest = [[i] for i in idx[4:]]
        a = gen.AForest([[0], [1], [2], [3]] + rest, [None, 0, None, 2] + [None] * (n - 4))
        b = gen.AForest([[0], [1], [2], [3]] + rest, [1, None, 3, None] + [None] * (n - 4))
        cc = gen.AForest([[0], [1], [2], [3]] + rest, [None] * n)
        return [a, b, cc], "two disjoint clades each fully covered by majority-supported children"
    if mode == 0 and n >= 2:
        a = gen.AForest([[0], [1]] + [[i] for i in idx[2:]], [None, 0] + [None] * (n - 2))
        b = gen.AForest([[0], [1]] + [[i] for i in idx[2:]], [1, None] + [None] * (n - 2))
        cc = gen.AForest([[0], [1]] + [[i] for i in idx[2:]], [None] * n)
        return [a, b, cc], "one clade fully covered by majority-supported children"
    if mode == 1 and n >= 3:
        a = gen.AForest([[0], [1], [2]] + [[i] for i in idx[3:]], [None, 0, 1] + [None] * (n - 3))
        b = gen.AForest([[0], [1], [2]] + [[i] for i in idx[3:]], [1, 2, None] + [None] * (n - 3))
        return [a, a, b, b, b], "nested clades with conflicting own-mutation sets"
    if mode == 2:
        fs = [gen.AForest([[i] for i in rng.permutation(n)], [None] + list(range(n - 1))) for _ in range(4)]
        return fs, "conflicting chains (little or nothing retained)"
    if mode == 3:
        f = gen.random_forest(rng, n)
        return [f, f, f], "identical trees"
    if mode == 4 and (c // 6) % 2 == 1 and n >= 4:
        # one topology recorded several times (its two or three outliers stored in whatever order the moves left them,
        # different scores) against a rival with other clades and the same outliers
        outs = [int(x) for x in rng.permutation(n)[: 2 + int(n > 4 and rng.random() < 0.5)]]
        rest = [i for i in idx if i not in outs]
        base = gen.random_forest(rng, len(rest))
        f = gen.AForest([[rest[j] for j in b] for b in base.blocks], base.parent, outs)
        order = [rest[j] for j in rng.permutation(len(rest))]
        g = gen.AForest([[x] for x in order], [None] + list(range(len(order) - 1)), outs)
        return [f, f, f, g, g], "one topology with permuted outlier lists and different scores against a rival"
    if mode == 4:
        return [gen.random_forest(rng, n, p_outlier=0.2) for _ in range(5)], "random mixture with outliers"
    fs = [gen.random_forest(rng, n) for _ in range(2)]
    return [fs[0]] * 4 + [fs[1]], "one dominant tree"


def reference_supports(results, weighted):
    summ, total, _best = tracegen.reference_summary(results)
    clade_support = {}
    if weighted:
        lw = {k: s["max"] + math.log(s["count"]) for k, s in summ.items()}
        m = max(lw.values())
        z = sum(math.exp(v - m) for v in lw.values())
        w = {k: math.exp(v - m) / z for k, v in lw.items()}
    else:
        w = {k: s["count"] / total for k, s in summ.items()}
    for k, wk in w.items():
        for clade in k[0]:
            clade_support[clade] = clade_support.get(clade, 0.0) + wk
    return clade_support


def consensus_task(task):
    from vlib.harness import Partial, describe_exception
    from phyclone.process_trace import write_consensus_results
    from phyclone.process_trace.consensus import get_consensus_tree
    from phyclone.process_trace.process_trace import create_topology_dict_from_trace, get_tree_from_consensus_graph
    from phyclone.tree import Tree
    from phyclone.utils.math import exp_normalize

    part = Partial()
    tmp = tempfile.mkdtemp(prefix="verif_c16_")
    try:
        for c in range(task["count"]):
            rng = np.random.default_rng([task["seed"], task["shard"], c, 16])
            n = int(rng.integers(2, 7))
            D = int(rng.integers(1, 3))
            data = gen.make_data(rng, n, D, 11, kind="smooth")
            samples = ["S%d" % i for i in range(D)]
            forests, label = structured_forests(rng, n, c)
            clusters = None
            if c % 4 == 2:
                # pre-clustered input: data points are clusters named by their integer id, the trace carries the cluster
                # table of the cluster file - including, sometimes, a cluster that lost all its mutations on loading
                import pandas as pd
                crow = []
                for dp in data:
                    dp.name = str(2 * dp.idx + 3)
                    for j in range(int(rng.integers(1, 4))):
                        crow.append({"mutation_id": "m%d_%d" % (dp.idx, j), "cluster_id": 2 * dp.idx + 3})
                if c % 8 == 2:
                    gone = 2 * int(rng.integers(0, n)) + 2
                    for j in range(int(rng.integers(1, 3))):
                        crow.append({"mutation_id": "gone%d_%d" % (gone, j), "cluster_id": gone})
                clusters = pd.DataFrame(crow).sort_values(by=["cluster_id", "mutation_id"]).reset_index(drop=True)
                label += " [clustered]"
                part.count("clustered_traces")
            if c % 7 == 3:
                # the same mixture several hundred entries long (counts beyond one byte, supports unchanged)
                reps = -(-int(rng.integers(270, 400)) // len(forests))
                forests = list(forests) * reps
                rng.shuffle(forests)
                label += " (x%d)" % reps
                part.count("long_traces")
            n_chains = int(rng.integers(1, 4))
            # one entry per listed forest (so that the listed multiplicities are the supports), spread over chains
            results = {}
            for ch in range(n_chains):
                results[ch] = {"data": data, "samples": samples, "trace": [], "chain_num": ch}
                if clusters is not None:
                    results[ch]["clusters"] = clusters
            for i, f in enumerate(forests):
                one = tracegen.make_trace(rng, data, samples, 1, 1, [f], scores="real")
                e = one[0]["trace"][0]
                if c % 5 == 4:
                    e["log_p_one"] = float(np.round(rng.normal() * 2 - 10, 2))  # synthetic scores: one may dominate
                if "permuted outlier lists" in label:
                    e["log_p_one"] = float(rng.normal() * 1.5 - 10)
                results[i % n_chains]["trace"].append(e)
            results = {ch: r for ch, r in results.items() if r["trace"] or ch == 0}
            if not results[0]["trace"]:
                results[0]["trace"].append(results[max(results)]["trace"].pop())
            path = os.path.join(tmp, "trace.pkl.gz")
            tracegen.write_trace(results, path)
            for weighted in (False, True):
                sup = reference_supports(results, weighted)
                for thr in THRESHOLDS:
                    case = {"seed": task["seed"], "shard": task["shard"], "case": c, "n": n, "mixture": label,
                            "weighted": weighted, "threshold": thr, "forests": [f.describe() for f in forests]}
                    if any(abs(v - thr) <= 1e-9 for v in sup.values()):
                        # a support within rounding of the threshold: that clade may or may not be retained (the property
                        # excludes it), but the command must still complete and write a valid tree that keeps every clade
                        # clearly above the threshold and none clearly below
                        part.count("cases_with_support_at_threshold")
                        must = frozenset(cl for cl, v in sup.items() if v > thr + 1e-9)
                        may = frozenset(cl for cl, v in sup.items() if v >= thr - 1e-9)
                        try:
                            tab, nwk = os.path.join(tmp, "c.tsv"), os.path.join(tmp, "c.nwk")
                            write_consensus_results(path, tab, nwk, consensus_threshold=thr,
                                                    weight_type="joint-likelihood" if weighted else "counts")
                            table = tracegen.read_table(tab)
                            if clusters is not None:
                                from checks.c12 import check_table
                                check_table(part, dict(case, command="consensus"), table, open(nwk).read().strip(), data,
                                            samples, None, clusters, None)
                                part.count("command_outputs_at_threshold")
                                continue
                            key = tracegen.table_key(table, open(nwk).read().strip(), data)
                            part.count("command_outputs_at_threshold")
                            if not (must <= key[0] <= may):
                                part.violation("consensus command's tree drops a clade clearly above the threshold or keeps "
                                               "one clearly below it (another clade sits exactly at the threshold)",
                                               dict(case, got=gen.key_str(key),
                                                    supports={",".join(map(str, sorted(k))): round(v, 6) for k, v in sup.items()}))
                        except Exception as e:
                            et, where, msg = describe_exception(e)
                            if where == "outside-repo":
                                import traceback
                                part.inconc("harness error: " + traceback.format_exc()[-900:])
                            else:
                                part.violation("%s in %s: consensus command failed on a trace with a clade exactly at the "
                                               "threshold (%s)" % (et, where, msg[:60]), dict(case, msg=msg))
                        continue
                    retained = frozenset(cl for cl, v in sup.items() if v > thr)
                    covered = set().union(*retained) if retained else set()
                    expected = (retained, frozenset(set(range(n)) - covered))
                    part.count("evaluations")
                    part.see("%s|w%s|t%s|%s" % (label, weighted, thr, gen.key_str(expected)))
                    if not retained:
                        part.count("cases_nothing_retained")
                    # does the retained family contain a clade fully covered by retained children?
                    n_empty = 0
                    for cl in retained:
                        kids = [k for k in retained if k < cl]
                        if kids and set().union(*kids) == set(cl):
                            n_empty += 1
                    if n_empty >= 2:
                        part.count("cases_with_two_or_more_empty_own_sets")
                    try:
                        # (1) library path
                        if weighted:
                            tops = create_topology_dict_from_trace(results)
                            trees = list(tops.keys())
                            probs = np.array([v["log_p_joint_max"] + np.log(v["count"]) for v in tops.values()])
                            probs, _ = exp_normalize(probs)
                        else:
                            trees = [Tree.from_dict(e["tree"]) for r in results.values() for e in r["trace"]]
                            probs = []
                        graph = get_consensus_tree(trees, data=data, threshold=thr, weighted=weighted, log_p_list=probs)
                        tree = get_tree_from_consensus_graph(data, graph)
                        monitors.tree_wellformed(tree, expect_idxs=list(range(n)))
                        got = gen.tree_key(tree)
                        ok = True
                        if got != expected:
                            ok = False
                            what = "consensus tree's clades are not exactly the clades with support above the threshold"
                            if n_empty >= 2:
                                what += " (two or more retained clades are fully covered by retained children)"
                            part.violation(what, dict(case, got=gen.key_str(got), expected=gen.key_str(expected),
                                                      supports={",".join(map(str, sorted(k))): round(v, 6) for k, v in sup.items()}))
                        # (2) command path
                        tab, nwk = os.path.join(tmp, "c.tsv"), os.path.join(tmp, "c.nwk")
                        write_consensus_results(path, tab, nwk, consensus_threshold=thr,
                                                weight_type="joint-likelihood" if weighted else "counts")
                        table = tracegen.read_table(tab)
                        if clusters is not None:
                            from checks.c12 import check_table
                            check_table(part, dict(case, command="consensus"), table, open(nwk).read().strip(), data, samples,
                                        expected if ok else None, clusters, None)
                            part.count("command_outputs")
                            part.count("clustered_command_outputs")
                            continue
                        key = tracegen.table_key(table, open(nwk).read().strip(), data)
                        part.count("command_outputs")
                        if key != expected and ok:
                            part.violation("consensus command's TABLE + TREE do not describe the majority clades",
                                           dict(case, got=gen.key_str(key), expected=gen.key_str(expected)))
                        outs = set(str(r["mutation_id"]) for _, r in table.iterrows() if str(r["clone_id"]) == "-1")
                        want_outs = set(str(data[i].name) for i in expected[1])
                        if outs != want_outs and ok:
                            part.violation("data points not covered by a retained clade are not reported with clone id -1",
                                           dict(case, got=sorted(outs), expected=sorted(want_outs)))
                    except monitors.Broken as b:
                        part.violation("consensus tree is not a valid tree: %s" % b.what, dict(case, detail=b.detail))
                    except Exception as e:
                        et, where, msg = describe_exception(e)
                        if where == "outside-repo":
                            import traceback
                            part.inconc("harness error: " + traceback.format_exc()[-900:])
                        else:
                            part.violation("%s in %s: consensus failed (%s)" % (et, where, msg[:60]), dict(case, msg=msg))
            if len(part.samples) < 2:
                part.sample({"mixture": label, "n": n, "forests": [f.describe() for f in forests][:3]})
    finally:
        shutil.rmtree(tmp, ignore_errors=True)
    return None, part


def run(ctx):
    quick = ctx.tier == "quick"
    ctx.rule = ("synthetic traces (a quarter of them pre-clustered, some with a cluster that has no data point) over 2-6 data points built from structured mixtures (disjoint clades with conflicting "
                "own-mutation splits, nested conflicts, conflicting chains, identical trees, random mixtures with outliers, "
                "one dominant tree) over 1-3 chains x thresholds {0.5,0.6,0.75,0.9,1.0} x counts / score-weighted; cases "
                "with a support within 1e-9 of the threshold: the command must complete and keep / drop the clear cases, the tied clade is free; distinct = (mixture, weighting, threshold, "
                "expected consensus)")
    ctx.assumptions = ["weighted support = normalised exp(max recorded score) x count per distinct tree"]
    shards = 16
    tasks = [{"seed": ctx.seed, "shard": i, "count": 12 if quick else 600} for i in range(shards)]
    ctx.map("checks.c16", "consensus_task", tasks, timeout=3000)
    ctx.map("checks.c16", "consensus_task", [dict(t, shard=100 + t["shard"], count=max(6, t["count"] // 4)) for t in tasks[:4]],
            timeout=3000, python_flags=("-O",))  # assertions off
    if ctx.counters.get("command_outputs", 0) < 200 or ctx.counters.get("cases_nothing_retained", 0) < 3:
        ctx.inconc("too few consensus outputs / no empty consensus observed")
    if ctx.counters.get("cases_with_two_or_more_empty_own_sets", 0) < 3:
        ctx.inconc("the two-empty-own-set structure was not generated")
