"""C20 -- an interrupted or truncated trace file is never read as a valid result.

Fault enumeration: EVERY byte prefix of trace files written by the real writer (1 and 3 chains, clustered and not) is
given to the three readers in-process; plus real `phyclone run` subprocesses whose final write is cut at byte N by a
failpoint (process killed / ENOSPC), the file they leave is read by the real CLI.  Oracle: the reader raises (CLI: exit
status != 0), or its output files are byte-identical to those obtained from the complete file.
"""

import gzip
import json
import pickle
import os
import shutil
import subprocess
import tempfile

import numpy as np

from vlib import harness, inputs

READERS = ["map", "consensus", "topology"]


def build_trace(seed, n_chains, clustered, tmp, iters=6, n_mut=None, particles=4, completion_order=None, info=None):
    """A trace written by the real writer (create_main_run_output) from real chain runs."""
    import phyclone.run as prun
    from phyclone.data.pyclone import load_data
    from phyclone.process_trace import create_main_run_output

    rng = np.random.default_rng([seed, n_chains, int(clustered), 20])
    rows, samples = inputs.make_table(rng, n_mut or (4 if not clustered else 6), 2)
    in_file = os.path.join(tmp, "in_%d_%d.tsv" % (n_chains, clustered))
    inputs.write_table(rows, in_file)
    cluster_file = None
    if clustered:
        crow, _ = inputs.make_clusters(rng, rows, 3, per_mutation=seed % 4 == 2, shuffle=seed % 2 == 1)
        cluster_file = os.path.join(tmp, "cl_%d.tsv" % n_chains)
        inputs.write_table(crow, cluster_file)
        if info is not None:
            info["cluster_rows"] = crow
    import contextlib as _c
    import io as _io

    with _c.redirect_stdout(_io.StringIO()):
        data, smp = load_data(in_file, np.random.default_rng(seed), 1e-4, 0.4, False, cluster_file=cluster_file,
                              density="beta-binomial", grid_size=11, outlier_prob=0.1, precision=400)
    main = np.random.default_rng(seed)
    rngs = [main] if n_chains == 1 else main.spawn(n_chains)
    results = {}
    import contextlib
    import io

    with contextlib.redirect_stdout(io.StringIO()):
        for ch, g in enumerate(rngs):
            results[ch] = prun.run_phyclone_chain(1, True, 1.0, data, float("inf"), iters, particles, 1, 1, 0.1, 1000,
                                                  "semi-adapted", 0.5, g, smp, 1, ch, 0.2)
    out = os.path.join(tmp, "trace_%d_%d_%d.pkl.gz" % (n_chains, clustered, iters))
    if completion_order is not None:
        # the run command inserts chain results in the order the chains complete
        results = {ch: results[ch] for ch in completion_order}
    create_main_run_output(cluster_file, out, results)
    return out


def run_reader(reader, in_file, outdir):
    """Returns ('error', type name) or ('ok', {filename: bytes})."""
    from phyclone.process_trace import write_consensus_results, write_map_results, write_topology_report

    for fn in os.listdir(outdir):
        os.unlink(os.path.join(outdir, fn))
    try:
        if reader == "map":
            write_map_results(in_file, os.path.join(outdir, "t.tsv"), os.path.join(outdir, "t.nwk"))
        elif reader == "consensus":
            write_consensus_results(in_file, os.path.join(outdir, "t.tsv"), os.path.join(outdir, "t.nwk"))
        else:
            write_topology_report(in_file, os.path.join(outdir, "rep.tsv"))
    except Exception as e:
        return "error", type(e).__name__
    out = {}
    for fn in sorted(os.listdir(outdir)):
        with open(os.path.join(outdir, fn), "rb") as fh:
            out[fn] = fh.read()
    return "ok", out


def prefix_task(task):
    from vlib.harness import Partial

    part = Partial()
    tmp = tempfile.mkdtemp(prefix="verif_c20_")
    try:
        trace = task["trace"]
        with open(trace, "rb") as fh:
            blob = fh.read()
        size = len(blob)
        outdir = os.path.join(tmp, "out")
        os.makedirs(outdir)
        full = {}
        for r in READERS:
            st, out = run_reader(r, trace, outdir)
            if st != "ok":
                part.inconc("reader %s fails on the complete trace: %s" % (r, out))
                return {"size": size}, part
            full[r] = out
        cut = os.path.join(tmp, "cut.pkl.gz")
        if task.get("positions") is not None:
            positions = task["positions"]
            lo, hi = (positions[0], positions[-1] + 1) if positions else (0, 0)
        else:
            lo = task["part"] * size // task["parts"]
            hi = (task["part"] + 1) * size // task["parts"]
            positions = range(lo, hi)
        errors = {}
        import zlib

        payload = zlib.decompress(blob, 31)

        def holds_everything(n):
            """Does the prefix of length n still carry the complete pickled content (cut inside the gzip trailer)?"""
            d = zlib.decompressobj(31)
            try:
                return d.decompress(blob[:n]) == payload
            except zlib.error:
                return False

        refresh = 64 if task.get("long") else 16
        for k, n in enumerate(positions):
            if k % refresh == 0:
                # 'or the file is later truncated': the complete file sits at this very path and is read successfully
                # before it is cut short
                with open(cut, "wb") as fh:
                    fh.write(blob)
                r0 = READERS[(k // refresh) % len(READERS)]
                st, out = run_reader(r0, cut, outdir)
                part.count("complete_file_read_at_the_path_before_truncation")
                if st != "ok" or out != full[r0]:
                    part.violation("%s command does not reproduce its results on the complete trace" % r0,
                                   {"chains": task["chains"], "file_size": size, "status": st})
            with open(cut, "wb") as fh:
                fh.write(blob[:n])
            for r in READERS:
                st, out = run_reader(r, cut, outdir)
                part.count("evaluations")
                if st == "error":
                    errors[out] = errors.get(out, 0) + 1
                elif out == full[r] and holds_everything(n):
                    part.count("prefixes_read_completely")
                    part.see("complete|%d|%d" % (task["chains"], size - n))
                elif out == full[r]:
                    part.violation("%s command produced the complete file's results from a truncated trace that no "
                                   "longer holds them (content of an earlier read of the same path)" % r,
                                   {"chains": task["chains"], "clustered": task["clustered"], "file_size": size,
                                    "prefix_length": n, "seed": task["seed"]})
                else:
                    part.violation("%s command produced results from a truncated trace (differing from the complete "
                                   "file's results)" % r,
                                   {"chains": task["chains"], "clustered": task["clustered"], "file_size": size,
                                    "prefix_length": n, "seed": task["seed"]})
            part.see("cut|%d|%d|%d" % (task["chains"], int(task["clustered"]), n))
        for k, v in errors.items():
            part.count("reader_raised_" + k, v)
        part.count("prefixes_sampled_long_trace" if task.get("positions") is not None else "prefixes", len(positions))
        if task["part"] == 0:
            part.sample({"chains": task["chains"], "clustered": task["clustered"], "file_size": size,
                         "prefix_range": [lo, hi], "errors": errors})
        return {"size": size}, part
    finally:
        shutil.rmtree(tmp, ignore_errors=True)


def cli_env(extra=None):
    env = harness.child_env(extra)
    env["PYTHONPATH"] = os.pathsep.join([os.path.join(harness.VERIF_DIR, "hooks"), harness.repo_path()])
    return env


def phyclone_cli(args, env, timeout=600, fsize_limit=None):
    """fsize_limit: RLIMIT_FSIZE of the child - no file of the process can grow beyond that many bytes (writes fail with
    EFBIG; bytes already in a file are left alone), the operating system's own 'disk full at byte N'."""
    pre = None
    if fsize_limit is not None:
        import resource

        def pre():
            resource.setrlimit(resource.RLIMIT_FSIZE, (int(fsize_limit), int(fsize_limit)))

    return subprocess.run([harness.PYTHON, "-c", "from phyclone.cli import main; main()"] + args, env=env,
                          stdout=subprocess.PIPE, stderr=subprocess.STDOUT, timeout=timeout, text=True, preexec_fn=pre)


def writer_fault_task(task):
    """A real `phyclone run` whose final write is cut at byte N; the real CLI reads what is left."""
    from vlib.harness import Partial

    part = Partial()
    tmp = tempfile.mkdtemp(prefix="verif_c20w_")
    try:
        rng = np.random.default_rng([task["seed"], 2020])
        rows, samples = inputs.make_table(rng, 4 if not task.get("clustered") else 6, 2)
        in_file = os.path.join(tmp, "in.tsv")
        inputs.write_table(rows, in_file)
        base = ["run", "-i", in_file, "-n", "4", "-b", "1", "--num-particles", "4", "--grid-size", "11", "--seed", "7",
                "--num-chains", str(task["chains"])]
        if task.get("clustered"):
            crow, _ = inputs.make_clusters(rng, rows, 3)
            cl_file = os.path.join(tmp, "cl.tsv")
            inputs.write_table(crow, cl_file)
            base += ["-c", cl_file]
        ref = os.path.join(tmp, "ref.pkl.gz")
        p = phyclone_cli(base + ["-o", ref], cli_env())
        if p.returncode != 0:
            part.inconc("reference CLI run failed: %s" % p.stdout[-500:])
            return None, part
        size = os.path.getsize(ref)
        with gzip.GzipFile(ref, "rb") as fh:
            ref_counts = {int(k): len(v["trace"]) for k, v in pickle.load(fh).items()}
        ref_out = {}
        for name, args in (("map", ["map", "-i", ref, "-o", os.path.join(tmp, "m.tsv"), "-t", os.path.join(tmp, "m.nwk")]),):
            q = phyclone_cli(args, cli_env())
            if q.returncode != 0:
                part.inconc("reference CLI map failed: %s" % q.stdout[-500:])
                return None, part
            ref_out[name] = open(os.path.join(tmp, "m.tsv"), "rb").read() + open(os.path.join(tmp, "m.nwk"), "rb").read()
        for at in task["cuts"]:
            n = int(at * size) if isinstance(at, float) else (size + at if at < 0 else at)
            n = max(0, n) if task.get("cumulative") else max(0, min(size - 1, n))
            for mode in task["modes"]:
                out = os.path.join(tmp, "cut_%d_%s.pkl.gz" % (n, mode))
                if task.get("preexisting"):
                    # the output path already holds the complete trace of an earlier run (another seed): an interrupted
                    # re-run into the same path must not leave that one readable as its result
                    old_args = [("8" if a == "7" and base[i - 1] == "--seed" else a) for i, a in enumerate(base)]
                    pre = phyclone_cli(old_args + ["-o", out], cli_env())
                    if pre.returncode != 0:
                        part.inconc("earlier run for the pre-existing trace failed")
                        continue
                    part.count("writer_faults_over_an_existing_trace")
                marker = os.path.join(tmp, "fault_%d_%s.marker" % (n, mode))
                env = cli_env({"VERIF_WRITE_FAULT": json.dumps({"at": n, "mode": mode, "cumulative": bool(task.get("cumulative")),
                                                                "marker": marker})})
                if task.get("preexisting"):
                    # fault by file-size limit: what is already in the file stays as it is, nothing can be written past byte n
                    p = phyclone_cli(base + ["-o", out], cli_env(), fsize_limit=n)
                    if p.returncode != 0:
                        open(marker, "w").write("file size limit hit\n")
                else:
                    p = phyclone_cli(base + ["-o", out], env)
                part.count("evaluations")
                if not os.path.exists(marker):
                    # the run wrote fewer bytes than the fault position (one write of the trace only): nothing was cut
                    part.count("writer_fault_position_beyond_what_the_run_writes")
                    if p.returncode != 0:
                        part.violation("phyclone run fails although no write fault was injected", {"output": p.stdout[-400:]})
                    continue
                part.count("writer_faults_injected")
                part.see("fault|%s|%d|%d" % (mode, task["chains"], n))
                if p.returncode == 0:
                    part.violation("phyclone run exits with status 0 although its trace write failed",
                                   {"mode": mode, "cut_at": n, "file_size": size})
                left = os.path.getsize(out) if os.path.exists(out) else None
                part.count("writer_left_%s" % ("nothing" if left is None else ("prefix" if left <= n else "more")))
                if left is not None and left > n and not task.get("preexisting"):
                    part.inconc("failpoint did not cut the write where requested (%d > %d)" % (left, n))
                if left is None:
                    continue
                mt, mn = os.path.join(tmp, "c.tsv"), os.path.join(tmp, "c.nwk")
                # what the file left behind holds, read by the harness itself: chains and entries per chain
                try:
                    with gzip.GzipFile(out, "rb") as fh:
                        left_res = pickle.load(fh)
                    left_counts = {int(k): len(v["trace"]) for k, v in left_res.items()}
                except Exception:
                    left_counts = None
                for reader, args in (("map", ["map", "-i", out, "-o", mt, "-t", mn]),
                                     ("consensus", ["consensus", "-i", out, "-o", mt, "-t", mn]),
                                     ("topology-report", ["topology-report", "-i", out, "-o", mt])):
                    for pth in (mt, mn):
                        if os.path.exists(pth):
                            os.unlink(pth)
                    q = phyclone_cli(args, cli_env())
                    part.count("summary_commands_on_failed_writes")
                    if q.returncode != 0:
                        part.count("cli_reader_failed_as_required")
                        continue
                    if left_counts != ref_counts:
                        part.violation("%s command produced results from the file left by a failed trace write, which does "
                                       "not hold the chains and entries the run recorded" % reader,
                                       {"mode": mode, "cut_at": n, "file_size": size, "left": left,
                                        "entries_left": left_counts, "entries_recorded": ref_counts})
                        break
                    if reader == "map":
                        got = open(mt, "rb").read() + open(mn, "rb").read()
                        if got != ref_out["map"]:
                            part.violation("map command produced results from a trace whose writer was interrupted",
                                           {"mode": mode, "cut_at": n, "file_size": size, "left": left})
                            break
                    part.count("cli_read_complete_content")
        part.sample({"chains": task["chains"], "file_size": size, "cuts": task["cuts"], "modes": task["modes"]})
    except subprocess.TimeoutExpired:
        part.inconc("CLI subprocess watchdog fired")
    finally:
        shutil.rmtree(tmp, ignore_errors=True)
    return None, part


def interrupted_run_task(task):
    """A real multi-chain `phyclone run` that is interrupted after some chains completed: the worker of one chain is
    killed / raises once the other named chains have been handed back to the parent.  Whatever the run leaves at the
    output path is read by the real summary commands: they must fail, or see the complete run."""
    from vlib.harness import Partial

    part = Partial()
    tmp = tempfile.mkdtemp(prefix="verif_c20i_")
    try:
        rng = np.random.default_rng([task["seed"], 2021])
        rows, samples = inputs.make_table(rng, 4, 2)
        in_file = os.path.join(tmp, "in.tsv")
        inputs.write_table(rows, in_file)
        chains, victim, mode = task["chains"], task["victim"], task["mode"]
        out = os.path.join(tmp, "out.pkl.gz")
        log = os.path.join(tmp, "chains.log")
        done_first = [c for c in range(chains) if c != victim][: task["completed_before"]]
        held = [c for c in range(chains) if c != victim and c not in done_first]
        delays = {"finish_after": {str(victim): done_first}, "die": {str(victim): mode}}
        for h in held:
            delays["finish_after"][str(h)] = [victim]  # never satisfied: still running when the run is interrupted
        env = cli_env({"VERIF_CHAIN_DELAYS": json.dumps(delays), "VERIF_CHAIN_LOG": log})
        base = ["run", "-i", in_file, "-n", "3", "-b", "1", "--num-particles", "3", "--grid-size", "11", "--seed", "7",
                "--num-chains", str(chains), "-o", out]
        try:
            p = phyclone_cli(base, env, timeout=120 if held else 600)
            rc = p.returncode
        except subprocess.TimeoutExpired:
            rc = "killed-by-harness"  # chains held back forever: the harness ends the interrupted run itself
        part.count("evaluations")
        part.count("interrupted_runs")
        events = [l.split()[:2] for l in open(log)] if os.path.exists(log) else []
        finished = sorted(int(c) for c, ev in events if ev == "finish")
        if [str(victim), "die"] not in events:
            part.inconc("interruption failpoint not reached (events %s)" % events)
            return None, part
        part.see("interrupt|%d chains|victim %d|%s|%d completed" % (chains, victim, mode, len(finished)))
        if rc == 0:
            part.violation("phyclone run exits with status 0 although one of its chains was lost",
                           {"chains": chains, "victim": victim, "mode": mode})
        if not os.path.exists(out):
            part.count("interrupted_run_left_no_file")
        else:
            part.count("interrupted_run_left_a_file")
            for name, args in (("map", ["map", "-i", out, "-o", os.path.join(tmp, "m.tsv"), "-t", os.path.join(tmp, "m.nwk")]),
                               ("consensus", ["consensus", "-i", out, "-o", os.path.join(tmp, "c.tsv"), "-t", os.path.join(tmp, "c.nwk")]),
                               ("topology-report", ["topology-report", "-i", out, "-o", os.path.join(tmp, "t.tsv")])):
                q = phyclone_cli(args, cli_env())
                part.count("summary_commands_on_interrupted_runs")
                if q.returncode == 0:
                    part.violation("%s command produced results from the trace file left by an interrupted run "
                                   "(%d of %d chains had completed)" % (name, len(finished), chains),
                                   {"chains": chains, "victim": victim, "mode": mode, "completed": finished,
                                    "run_exit": rc, "file_size": os.path.getsize(out)})
                    break
                part.count("cli_reader_failed_as_required")
        part.sample({"chains": chains, "victim": victim, "mode": mode, "completed_before": finished, "run_exit": rc,
                     "left_file": os.path.exists(out)})
    finally:
        shutil.rmtree(tmp, ignore_errors=True)
    return None, part


def run(ctx):
    quick = ctx.tier == "quick"
    ctx.level = "fault_enumeration"
    ctx.rule = ("crash points = every byte prefix (0..size-1) of trace files written by the real writer from real chain runs "
                "(1 chain unclustered, 3 chains clustered; thorough adds 2 more), each read by map, consensus and "
                "topology-report in-process, at one path at which the complete file is read successfully before it is cut short; a long trace (1100 entries) at a stride of prefixes plus head and tail (quick) or "
                "every prefix (thorough); plus real `phyclone run` processes whose final write is cut at byte N by a "
                "failpoint (killed / ENOSPC) and read back by the real CLI; plus multi-chain runs interrupted after k of n "
                "chains completed (a chain's worker killed, or raising), whatever is left at the output path read by "
                "the three summary commands; distinct = (trace, prefix length)")
    ctx.assumptions = ["a reader that loads the complete content from a prefix cut inside the 8-byte gzip trailer and "
                       "writes results identical to the complete file's is accepted (the prefix is decompressed "
                       "independently: it must still hold the whole pickled content)",
                       "the trace is written by one gzip stream at the end of the run (create_main_run_output)"]
    traces = [(1, False), (3, True)] + ([] if quick else [(2, False), (4, True)])
    parts = 5 if quick else 16
    shared = tempfile.mkdtemp(prefix="verif_c20_traces_")
    try:
        tasks = []
        sizes = {}
        for ch, cl in traces:
            path = build_trace(ctx.seed, ch, cl, shared)
            sizes[(ch, cl)] = os.path.getsize(path)
            for p in range(parts):
                tasks.append({"kind": "prefix", "seed": ctx.seed, "chains": ch, "clustered": cl, "part": p, "parts": parts,
                              "trace": path})
        cuts = [0, 5, 0.5, -4] if quick else [0, 3, 10, 0.1, 0.5, 0.9, -9, -8, -4, -1]
        wt = [{"kind": "writer", "seed": ctx.seed, "chains": 1, "cuts": [c], "modes": [m]}
              for c in cuts for m in ("kill", "enospc")]
        # a pre-clustered run, fault position counted over everything the process writes (a writer that saves the trace
        # in more than one pass is cut in its later passes too)
        wt += [{"kind": "writer", "seed": ctx.seed + 2, "chains": 1, "clustered": True, "cumulative": True, "cuts": [c], "modes": [m]}
               for c in ((0.5, 1.4) if quick else (0.2, 0.9, 1.1, 1.4, 1.8, 1.99)) for m in ("kill", "enospc")]
        # re-run into a path that already holds the complete trace of an earlier run, cut at the very start of the write
        wt += [{"kind": "writer", "seed": ctx.seed + 3, "chains": 1, "preexisting": True, "cuts": [c], "modes": [m]}
               for c in ((0, 7) if quick else (0, 3, 7, 12, 0.5)) for m in ("enospc",)]
        if not quick:
            wt += [{"kind": "writer", "seed": ctx.seed + 1, "chains": 2, "cuts": [c], "modes": [m]}
                   for c in (0.3, -5) for m in ("kill", "enospc")]
        # a long trace (more than a thousand entries in one chain): every prefix in the thorough tier; in the quick tier a
        # stride of prefixes with a seed-dependent offset plus the head and the tail exhaustively
        long_path = build_trace(ctx.seed + 5, 1, False, shared, iters=1100, n_mut=2, particles=2)
        lsize = os.path.getsize(long_path)
        ctx.extra["long_trace_size"] = lsize
        if quick:
            stride = max(1, lsize // 2600)
            pos = sorted(set(range(0, 64)) | set(range((ctx.seed * 7) % stride, lsize, stride)) | set(range(max(0, lsize - 400), lsize)))
        else:
            pos = list(range(lsize))
        nparts = 10 if quick else 48
        for p in range(nparts):
            tasks.append({"kind": "prefix", "seed": ctx.seed, "chains": 1, "clustered": False, "trace": long_path,
                          "positions": pos[p::nparts], "part": p, "parts": nparts, "long": True})
        # crash points of the run as a whole: a multi-chain run interrupted after k of its chains completed
        it = [{"kind": "interrupt", "seed": ctx.seed, "chains": ch, "victim": v, "mode": m, "completed_before": k}
              for ch, v, m, k in ([(3, 2, "exit", 2), (3, 0, "raise", 2), (2, 1, "raise", 1), (4, 1, "exit", 1)] if quick else
                                  [(ch, v, m, k) for ch in (2, 3, 4) for v in range(ch) for m in ("exit", "raise")
                                   for k in range(1, ch) if m == "exit" or k == ch - 1])]
        ctx.map("checks.c20", "dispatch", it + wt + tasks, timeout=3000)
    finally:
        shutil.rmtree(shared, ignore_errors=True)
    total = sum(sizes.values())
    ctx.extra["trace_sizes"] = {"%d chains, clustered=%s" % k: v for k, v in sizes.items()}
    ctx.exhaustive = ctx.counters.get("prefixes", 0) == total and total > 0
    if not ctx.exhaustive:
        ctx.inconc("not every prefix was visited (%d of %d)" % (ctx.counters.get("prefixes", 0), total))
    if ctx.counters.get("interrupted_runs", 0) < 3:
        ctx.inconc("run-level interruption failpoints not exercised")
    if ctx.counters.get("writer_faults_injected", 0) < 4:
        ctx.inconc("writer failpoints not exercised")


def dispatch(task):
    if task["kind"] == "interrupt":
        return interrupted_run_task(task)
    return writer_fault_task(task) if task["kind"] == "writer" else prefix_task(task)
