"""C09 -- data orders are drawn uniformly from those compatible with the tree; log_pdf = -log(#orders).

Observed: RootPermutationDistribution.sample(tree, rng) under exhaustive ChoiceRNG replay (exact law of the order) and
RootPermutationDistribution.log_pdf(tree).  Oracle: brute-force set of compatible orders (reference model) and an
independent counting recursion.
"""

import math

import numpy as np

from vlib import gen, kernelx, refmodel
from vlib.choice_rng import ChoiceModelError, explore


def exact_case(task):
    from vlib.harness import Partial, describe_exception
    from phyclone.smc.utils import RootPermutationDistribution

    part = Partial()
    n = task["n"]
    rng0 = np.random.default_rng([task["seed"], n, 9])
    data = gen.make_data(rng0, n, 1, 3, kind="flat")
    forests = [gen.AForest.from_desc(d) for d in task["forests"]]
    for f in forests:
        tree, _ = gen.build_tree(f, data)
        part.count("evaluations")
        part.see(gen.key_str(f.key()))
        n_out = len(f.outliers)
        try:
            expected = refmodel.compatible_orders(f) if n <= 7 and task.get("brute", True) else None
            log_count_ref = refmodel.count_orders(f)
            if expected is not None and abs(math.log(len(expected)) - log_count_ref) > 1e-9:
                part.inconc("reference models disagree on #orders for %s" % f.describe())
                continue
            law = {}
            paths = 0

            def once(rng):
                t2 = tree.copy()
                sigma = RootPermutationDistribution.sample(t2, rng)
                return tuple(dp.idx for dp in sigma)

            if task.get("exhaustive", True):
                for res, prob, _r in explore(once):
                    paths += 1
                    law[res] = law.get(res, 0.0) + prob
                part.count("paths", paths)
                tot = sum(law.values())
                if abs(tot - 1) > 1e-9:
                    part.inconc("path probabilities sum to %r" % tot)
                    continue
                exp_set = set(expected)
                got_set = set(law)
                if got_set - exp_set:
                    bad = sorted(got_set - exp_set)[0]
                    part.violation("sampled data order incompatible with the tree (clone before a descendant / wrong set)",
                                   {"forest": f.describe(), "order": bad})
                elif exp_set - got_set:
                    part.violation("a compatible data order can never be produced",
                                   {"forest": f.describe(), "missing": sorted(exp_set - got_set)[0],
                                    "n_expected": len(exp_set), "n_got": len(got_set)})
                else:
                    u = 1.0 / len(exp_set)
                    dev = max(abs(p - u) for p in law.values())
                    part.maxi("max_uniformity_dev", dev)
                    if dev > 1e-12 + 1e-9 * u:
                        worst = max(law.items(), key=lambda kv: abs(kv[1] - u))
                        part.violation("compatible data orders are not equally likely",
                                       {"forest": f.describe(), "order": worst[0], "prob": worst[1], "uniform": u})
            else:
                # sampling mode for larger trees: membership only
                g = np.random.default_rng([task["seed"], 77])
                oc = refmodel.OrderChecker(f)
                pairs = oc.symmetric_pairs()
                pa = np.array([p[0] for p in pairs], dtype=int)
                pb = np.array([p[1] for p in pairs], dtype=int)
                first = np.zeros(len(pairs), dtype=int)
                draws = task.get("draws", 60)
                done = 0
                for _ in range(draws):
                    sigma = RootPermutationDistribution.sample(tree.copy(), g)
                    order = tuple(dp.idx for dp in sigma)
                    part.count("sampled_orders")
                    if not oc.ok(order):
                        part.violation("sampled data order incompatible with the tree (clone before a descendant / wrong set)",
                                       {"forest": f.describe() if n <= 40 else "wide forest, %d clones" % f.K,
                                        "order": order[:60], "widest_sibling_set": max(len(k) for k in oc.kids + [f.tops()])})
                        break
                    done += 1
                    if len(pairs):
                        pos = np.empty(max(oc.idxs) + 1, dtype=int)
                        pos[list(order)] = np.arange(len(order))
                        first += pos[pa] < pos[pb]
                if done == draws and draws >= 60 and len(pairs):
                    part.count("symmetric_pairs_watched", len(pairs))
                    stuck = np.nonzero((first == 0) | (first == draws))[0]
                    if len(stuck):
                        a, b = pairs[int(stuck[0])]
                        part.violation("two data points exchanged by a symmetry of the tree came out in the same relative "
                                       "order in every one of %d draws (probability 2^-%d each under the uniform law)"
                                       % (draws, draws - 1),
                                       {"forest": f.describe() if n <= 40 else "wide forest, %d clones" % f.K,
                                        "points": [int(a), int(b)], "stuck_pairs": int(len(stuck)), "pairs_watched": len(pairs),
                                        "widest_sibling_set": max(len(k) for k in oc.kids + [f.tops()])})
            lp = float(RootPermutationDistribution.log_pdf(tree))
            # the same tree under other labellings / construction histories (pre-order relabelling as the run loop does
            # after every sweep, shuffled siblings, dictionary round trip)
            from vlib import tracegen
            for variant in (1, 2, 3):
                tv = tracegen.variant_tree(f, data, rng0, variant)
                lpv = float(RootPermutationDistribution.log_pdf(tv))
                part.count("labelling_variant_evaluations")
                if not abs(lpv - lp) <= 1e-9 * (1 + abs(lp)):
                    part.violation("log_pdf of the same tree depends on how its clones are labelled / were built",
                                   {"forest": f.describe(), "variant": ["", "shuffled siblings", "pre-order relabelled",
                                                                        "dictionary round trip"][variant],
                                    "log_pdf": lpv, "log_pdf_fresh_build": lp, "expected": -log_count_ref})
                    break
            # the same density on trees whose internal layout has gaps: after a subtree was cut out (the pruned tree is
            # scored against its own count), after it was grafted back, and after a dictionary round trip of either
            if f.K >= 2:
                from phyclone.tree import Tree
                for _rep in range(2):
                    t0, nm = gen.build_tree(f, data, child_order_rng=rng0)
                    i = int(rng0.integers(0, f.K))
                    sub = t0.get_subtree(nm[i])
                    par = t0.get_parent(nm[i])
                    t0.remove_subtree(sub)
                    back = t0.copy()
                    back.add_subtree(sub, parent=None if par == t0.root_node_name else par)
                    back.update()
                    for label, tv in (("after a subtree was cut out", t0), ("after the subtree was grafted back", back),
                                      ("after cutting, grafting and a dictionary round trip", Tree.from_dict(back.to_dict())),
                                      ("after cutting and a dictionary round trip", Tree.from_dict(t0.to_dict()))):
                        fv, _nodes = gen.tree_to_forest(tv)
                        refv = refmodel.count_orders(fv)
                        lpv = float(RootPermutationDistribution.log_pdf(tv))
                        part.count("layout_variant_evaluations")
                        if not abs(-lpv - refv) <= 1e-9 * (1 + abs(refv)):
                            part.violation("log_pdf is not minus log of the number of compatible orders on a tree %s "
                                           "(gaps in the internal node positions)" % label,
                                           {"forest": fv.describe(), "log_pdf": lpv, "expected": -refv})
                            break
            dev = abs(-lp - log_count_ref)
            part.maxi("max_log_pdf_dev", dev)
            if not dev <= 1e-9 * (1 + abs(log_count_ref)):
                what = "log_pdf is not minus log of the number of compatible orders"
                if n_out >= 2:
                    what += " (tree with >=2 outliers)"
                part.violation(what, {"forest": f.describe(), "log_pdf": lp, "expected": -log_count_ref,
                                      "n_orders_reported": math.exp(-lp), "n_orders": math.exp(log_count_ref)})
            part.sample({"forest": f.describe() if n <= 40 else "wide forest, %d clones" % f.K,
                         "n_orders": round(math.exp(log_count_ref)) if log_count_ref < 700 else "exp(%.1f)" % log_count_ref,
                         "log_pdf": lp}, limit=2)
            if n > 40:
                part.count("wide_forests")
                fan = {}
                for p in f.parent:
                    fan[p] = fan.get(p, 0) + 1
                part.maxi("widest_sibling_set", max(fan.values()))
                continue
            # the same clones with other outlier sets, scored back to back in this process (a density that is memoised
            # or otherwise carried over between trees must not leak from one outlier set to another)
            if n >= 2 and f.K >= 1:
                for drop in ([], list(f.outliers)[:1], list(f.outliers)):
                    g2 = gen.AForest(f.blocks, f.parent, [o for o in f.outliers if o not in drop])
                    t2, _ = gen.build_tree(g2, data)
                    lp2 = float(RootPermutationDistribution.log_pdf(t2))
                    ref2 = refmodel.count_orders(g2)
                    part.count("outlier_variant_evaluations")
                    if not abs(-lp2 - ref2) <= 1e-9 * (1 + abs(ref2)):
                        part.violation("log_pdf is not minus log of the number of compatible orders for the same clones "
                                       "with another outlier set scored in the same process",
                                       {"forest": g2.describe(), "scored_after": f.describe(), "log_pdf": lp2,
                                        "expected": -ref2})
                        break
        except ChoiceModelError as e:
            part.inconc("choice model: %s" % e)
        except Exception as e:
            et, where, msg = describe_exception(e)
            part.violation("%s in %s while drawing / scoring a data order" % (et, where),
                           {"forest": f.describe(), "msg": msg})
    return None, part


class _Stop(Exception):
    def __init__(self, sampler):
        self.sampler = sampler


def pass_order_task(task):
    """The order actually handed to an SMC pass by the real particle-Gibbs samplers (whole tree and random subtree with
    the tree's outliers moved in): the sampler is replayed over every outcome of its random draws up to the start of the
    conditional SMC pass; given the tree of the pass, the law of the order must be uniform over that tree's compatible
    orders."""
    from vlib import kernelx
    from vlib.harness import Partial, describe_exception
    from phyclone.smc.samplers.conditional import ConditionalSMCSampler
    from phyclone.utils.dev import clear_proposal_dist_caches

    part = Partial()
    cfg = task["cfg"]
    data = kernelx.config_data(cfg)
    td = kernelx.make_tree_dist(cfg)
    forests = [gen.AForest.from_desc(d) for d in task["forests"]]
    orig_sample = ConditionalSMCSampler.sample

    def stop(self):
        raise _Stop(self)

    try:
        ConditionalSMCSampler.sample = stop
        for f in forests:
            def once(rng):
                clear_proposal_dist_caches()
                kernelx.cold_array_caches()
                tree, _ = gen.build_tree(f, data)
                move, _k = kernelx.make_move(cfg, rng, td)
                try:
                    move(tree)
                except _Stop as st:
                    smp = st.sampler
                    pass_tree = smp.constrained_path[-1].tree
                    pf, _nodes = gen.tree_to_forest(pass_tree)
                    return gen.key_str(pf.key()), pf.describe(), tuple(dp.idx for dp in smp.data_points)
                return None

            law = {}
            desc = {}
            try:
                for res, prob, _r in explore(once):
                    part.count("paths")
                    if res is None:
                        part.count("moves_without_an_smc_pass")
                        continue
                    k, d, sigma = res
                    desc[k] = d
                    law.setdefault(k, {})
                    law[k][sigma] = law[k].get(sigma, 0.0) + prob
            except ChoiceModelError as e:
                part.inconc("choice model: %s" % e)
                continue
            part.count("evaluations")
            part.see("pass|%s|%s" % (cfg["move"], gen.key_str(f.key())))
            for k, orders in law.items():
                pf = gen.AForest.from_desc(desc[k])
                expected = set(refmodel.compatible_orders(pf))
                tot = sum(orders.values())
                part.count("pass_trees_checked")
                if len(pf.outliers) and pf.K:
                    part.count("pass_trees_with_clones_and_outliers")
                bad = set(orders) - expected
                miss = expected - set(orders)
                case = {"cfg": cfg, "start_tree": f.describe(), "pass_tree": desc[k]}
                if bad:
                    part.violation("order handed to the SMC pass is incompatible with the tree of the pass",
                                   dict(case, order=sorted(bad)[0]))
                elif miss:
                    part.violation("a compatible data order can never be produced for an SMC pass of the %s sampler"
                                   % cfg["move"], dict(case, missing=sorted(miss)[0], n_expected=len(expected), n_got=len(orders)))
                else:
                    u = 1.0 / len(expected)
                    dev = max(abs(p / tot - u) for p in orders.values())
                    part.maxi("max_pass_order_uniformity_dev", dev)
                    if dev > 1e-12 + 1e-9 * u:
                        worst = max(orders.items(), key=lambda kv: abs(kv[1] / tot - u))
                        part.violation("compatible data orders of an SMC pass of the %s sampler are not equally likely"
                                       % cfg["move"], dict(case, order=worst[0], prob=worst[1] / tot, uniform=u))
    except Exception as e:
        et, where, msg = describe_exception(e)
        if where == "outside-repo":
            import traceback
            part.inconc("harness error: " + traceback.format_exc()[-800:])
        else:
            part.violation("%s in %s while a sampler prepared an SMC pass" % (et, where), {"cfg": cfg, "msg": msg})
    finally:
        ConditionalSMCSampler.sample = orig_sample
    return None, part


def run(ctx):
    ctx.rule = ("every forest over n<=4 data points x every outlier subset (quick; n<=5 thorough) with the exact law of "
                "sample() by exhaustive replay against the brute-force set of compatible orders; random forests up to 7 "
                "points exhaustively and up to 12 points by membership + independent count; wide forests (257-513 sibling "
                "chains) by membership, count and symmetric pairs (two points exchanged by a symmetry of the tree must not "
                "keep one relative order over 60 draws); the order handed to the SMC pass by the real whole-tree and subtree "
                "samplers (replayed up to the start of the pass) given the tree of the pass; distinct = canonical tree")
    ctx.assumptions = ["brute-force order enumeration and counting recursion cross-check each other",
                       "symmetric-pair monitor: a correct sampler trips it with probability < 1e-12 per run (<=60000 pairs x 2^-59)",
                       "ChoiceRNG.shuffle models a uniform shuffle (distinct arrangements weighted by multiplicity)"]
    nmax = 4 if ctx.tier == "quick" else 5
    tasks = []
    for n in range(1, nmax + 1):
        fs = gen.all_forests(n, outliers=True)
        chunk = 40 if n < 5 else 25
        for i in range(0, len(fs), chunk):
            tasks.append({"n": n, "seed": ctx.seed, "forests": [f.describe() for f in fs[i:i + chunk]]})
    rng = np.random.default_rng([ctx.seed, 909])
    nrand = 60 if ctx.tier == "quick" else 3000
    big = []
    for i in range(nrand):
        n = int(rng.integers(5, 8))
        f = gen.random_forest(rng, n, p_outlier=[0.0, 0.2, 0.5][i % 3], shape=[None, "chain", "star", "bushy"][i % 4])
        big.append((n, f))
    for n in (5, 6, 7):
        fs = [f.describe() for m, f in big if m == n]
        for i in range(0, len(fs), 6):
            tasks.append({"n": n, "seed": ctx.seed, "forests": fs[i:i + 6]})
    nbig = 40 if ctx.tier == "quick" else 2000
    for i in range(0, nbig, 10):
        fs = []
        for j in range(10):
            n = int(rng.integers(8, 13))
            fs.append((n, gen.random_forest(rng, n, p_outlier=[0.0, 0.15, 0.4][j % 3],
                                            shape=[None, "chain", "star", "bushy"][j % 4])))
        for n in set(m for m, _ in fs):
            tasks.append({"n": n, "seed": ctx.seed, "exhaustive": False, "brute": False, "draws": 60,
                          "forests": [f.describe() for m, f in fs if m == n]})
    # wide trees: more than 256 / 300 sibling clones (chains of 1-3 clones of 1-2 points) under one clone or at top level
    for i in range(6 if ctx.tier == "quick" else 48):
        width = int([257, 300, 260, 513, 290, 400][i % 6])
        blocks, parent, nxt = [], [], 0
        hub = None
        if i % 2:
            blocks.append([nxt]); parent.append(None); nxt += 1
            hub = 0
        for w in range(width):
            depth = int(rng.integers(1, 4)) if i % 3 else 1
            up = hub
            for _d in range(depth):
                size = 1 + int(rng.random() < 0.2)
                blocks.append(list(range(nxt, nxt + size))); parent.append(up); nxt += size
                up = len(blocks) - 1
        outs = list(range(nxt, nxt + (i % 3)))
        f = gen.AForest(blocks, parent, outs)
        tasks.append({"n": nxt + len(outs), "seed": ctx.seed, "exhaustive": False, "brute": False, "draws": 60,
                      "forests": [f.describe()]})
    ctx.map("checks.c09", "exact_case", tasks, timeout=1200)
    # the orders the real samplers hand to their SMC passes (whole tree / random subtree + the tree's outliers)
    ptasks = []
    for move in ("pg", "subtree"):
        for wiring in ("library", "run"):
            for n in (3, 4):
                fs = [f for f in gen.all_forests(n, outliers=True) if f.K >= 1]
                pick = rng.permutation(len(fs))[: (24 if n == 3 else 16) if ctx.tier == "quick" else (len(fs) if n == 3 else 200)]
                cfg = {"data_seed": ctx.seed, "n": n, "D": 1, "G": 3, "alpha": 1.0, "move": move, "wiring": wiring,
                       "outlier_prior": 0.2, "proposal": "semi-adapted", "N": 2, "kind": "flat"}
                sel = [fs[int(i)].describe() for i in pick]
                for i in range(0, len(sel), 8):
                    ptasks.append({"cfg": cfg, "forests": sel[i:i + 8]})
    ctx.map("checks.c09", "pass_order_task", ptasks, timeout=1200)
    if ctx.counters.get("pass_trees_with_clones_and_outliers", 0) < 20:
        ctx.inconc("too few SMC passes over trees with clones and outliers observed")
    ctx.exhaustive = False
    if ctx.counters.get("wide_forests", 0) < 4:
        ctx.inconc("wide forests not evaluated")
    if ctx.counters.get("paths", 0) < 500:
        ctx.inconc("fewer than 500 replayed shuffle paths")
