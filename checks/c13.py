"""C13 -- the concentration update is an exact Gibbs step for the CRP concentration.

Observed: the parameters of every Beta, Bernoulli and Gamma draw inside GammaPriorConcentrationSampler.sample (proxies
for scipy.stats.beta / bernoulli / gamma inside phyclone.mcmc.concentration that record parameters and script the
returned value, so that every value of the auxiliary variable and both mixture components are exercised), and the call
site in the run loop (K, n from the tree; the new value used afterwards) via the shared run driver.
"""

import math

import numpy as np


class Proxy(object):
    def __init__(self, real, name, log, script):
        self.real, self.name, self.log, self.script = real, name, log, script

    def rvs(self, *a, **k):
        k2 = {kk: vv for kk, vv in k.items() if kk != "random_state"}
        self.log.append((self.name, a, k2, "random_state" in k and k["random_state"] is not None))
        if self.name in self.script:
            return self.script[self.name]
        return self.real.rvs(*a, **k)

    def __getattr__(self, n):
        return getattr(self.real, n)


def _params(name, a, k):
    """Normalise scipy call conventions to canonical parameter dicts."""
    if name == "beta":
        aa = k.get("a", a[0] if len(a) > 0 else None)
        bb = k.get("b", a[1] if len(a) > 1 else None)
        return {"a": aa, "b": bb, "loc": k.get("loc", 0), "scale": k.get("scale", 1)}
    if name == "bernoulli":
        return {"p": k.get("p", a[0] if a else None), "loc": k.get("loc", 0)}
    if name == "gamma":
        return {"shape": k.get("a", a[0] if a else None), "scale": k.get("scale", a[2] if len(a) > 2 else 1),
                "loc": k.get("loc", a[1] if len(a) > 1 else 0)}
    raise ValueError(name)


def param_task(task):
    from scipy.stats import gamma as sgamma
    from vlib.harness import Partial, describe_exception
    import phyclone.mcmc.concentration as cm

    part = Partial()
    real = {"beta": cm.beta, "bernoulli": cm.bernoulli, "gamma": cm.gamma}
    rng = np.random.default_rng([task["seed"], task["shard"], 13])
    etas = [1e-300, 1e-12, 1e-3, 0.05, 0.3, 0.5, 0.9, 0.999, 1 - 1e-12]
    pool = {}
    try:
        for c in range(task["count"]):
            a = float(10 ** rng.uniform(-2, 1.5))
            b = float(10 ** rng.uniform(-2, 1.5))
            if c % 5 == 0 or c % 4 == 2:
                a, b = 0.01, 0.01  # the run command's prior
            n = int(rng.integers(1, 60))
            if c % 7 == 6:
                # data sets of thousands to hundreds of thousands of points (counts beyond one and two bytes)
                n = int(10 ** rng.uniform(2.5, 5.5))
            K = [1, n, int(rng.integers(1, n + 1))][c % 3]
            alpha = float(10 ** rng.uniform(-8, 3))
            eta = etas[c % len(etas)] if c % 2 == 0 else float(rng.uniform(1e-6, 1 - 1e-6))
            for bern in (0, 1):
                gval = float(10 ** rng.uniform(-14, 3))
                log = []
                script = {"beta": eta, "bernoulli": bern, "gamma": gval}
                for nm in real:
                    setattr(cm, nm, Proxy(real[nm], nm, log, script))
                case = {"a": a, "b": b, "alpha": alpha, "K": K, "n": n, "eta": eta, "bernoulli": bern}
                try:
                    # call history: half of the updates are made by a long-lived sampler object (one per prior, as one chain
                    # keeps one) that has already served other (K, n); the other half by a fresh one
                    if c % 2 == 0:
                        if (a, b) not in pool:
                            pool[(a, b)] = cm.GammaPriorConcentrationSampler(a, b, rng)
                        else:
                            part.count("updates_by_a_sampler_that_served_other_counts_before")
                        sampler = pool[(a, b)]
                    else:
                        sampler = cm.GammaPriorConcentrationSampler(a, b, rng)
                    out = sampler.sample(alpha, K, n)
                finally:
                    for nm in real:
                        setattr(cm, nm, real[nm])
                part.count("evaluations")
                part.see("K%d|n%d|b%d|%d" % (K, n, bern, c % len(etas)))
                names = [l[0] for l in log]
                if names != ["beta", "bernoulli", "gamma"]:
                    part.violation("update does not draw (auxiliary Beta, component Bernoulli, Gamma) in that order",
                                   dict(case, draws=names))
                    continue
                if not all(l[3] for l in log):
                    part.violation("a draw of the update does not use the sampler's generator", dict(case))
                pb = _params("beta", log[0][1], log[0][2])
                pz = _params("bernoulli", log[1][1], log[1][2])
                pg = _params("gamma", log[2][1], log[2][2])
                rate = b - math.log(eta)
                x = (a + K - 1) / (n * rate)
                exp_pi = x / (1 + x)
                exp_shape = a + K - 1 + bern
                exp_scale = 1.0 / rate

                def rel(u, v):
                    return abs(u - v) <= 1e-12 * max(1.0, abs(v))

                if not (rel(pb["a"], alpha + 1) and pb["b"] == n and pb["loc"] == 0 and pb["scale"] == 1):
                    part.violation("auxiliary variable is not drawn from Beta(alpha+1, n)", dict(case, got=pb))
                if not (rel(pz["p"], exp_pi) and pz["loc"] == 0):
                    part.violation("mixture component probability is not x/(1+x), x=(a+K-1)/(n(b-log eta))",
                                   dict(case, got=pz, expected=exp_pi))
                if not (rel(pg["shape"], exp_shape) and rel(pg["scale"], exp_scale) and pg["loc"] == 0):
                    part.violation("new value is not drawn from Gamma(a+K-1(+1), scale 1/(b-log eta))",
                                   dict(case, got=pg, expected={"shape": exp_shape, "scale": exp_scale}))
                if not (out == gval or (gval < 1e-10 and out == 1e-10)):
                    part.violation("returned value is not the Gamma draw (up to the 1e-10 numerical floor)",
                                   dict(case, drawn=gval, returned=out))
                part.maxi("max_alpha_tested", alpha)
            # functional form: recorded mixture density proportional to x^(a+K-2) (x+n) exp(-x(b-log eta))
            rate = b - math.log(eta)
            s = a + K - 1
            mode = max(s, 0.5) / rate
            xs = np.array([0.05, 0.3, 0.8, 1.5, 3.0, 8.0]) * mode
            with np.errstate(over="ignore", under="ignore", divide="ignore", invalid="ignore"):
                mix = np.logaddexp(math.log(exp_pi) + sgamma.logpdf(xs, s + 1, scale=1 / rate),
                                   math.log1p(-exp_pi) + sgamma.logpdf(xs, s, scale=1 / rate))
                tgt = (s - 1) * np.log(xs) + np.log(xs + n) - xs * rate
                ratio = mix - tgt
            ok = np.isfinite(ratio)
            if ok.sum() >= 2:
                spread = float(np.max(ratio[ok]) - np.min(ratio[ok]))
                part.maxi("max_mixture_vs_target_log_ratio_spread", spread)
                part.count("mixture_shape_evaluations")
                if spread > 1e-8 * (1 + float(np.max(np.abs(tgt[ok])))):
                    part.inconc("reference: two-component mixture is not proportional to the stated density (%g)" % spread)
            if len(part.samples) < 2:
                part.sample(dict(case, recorded={"beta": pb, "bernoulli": pz, "gamma": pg}))
    except Exception as e:
        et, where, msg = describe_exception(e)
        if where == "outside-repo":
            import traceback
            part.inconc("harness error: " + traceback.format_exc()[-700:])
        else:
            part.violation("%s in %s during a concentration update" % (et, where), {"msg": msg})
    finally:
        for nm in real:
            setattr(cm, nm, real[nm])
    return None, part


def invariance_task(task):
    """Numerical invariance: the kernel assembled from the *recorded parameter functions* of the real code, integrated
    against p(alpha|K,n) ~ alpha^(a+K-1) e^(-b alpha) Gamma(alpha)/Gamma(alpha+n), reproduces it."""
    from scipy.integrate import quad
    from scipy.special import gammaln
    from scipy.stats import beta as sbeta, gamma as sgamma
    from vlib.harness import Partial
    import phyclone.mcmc.concentration as cm

    part = Partial()
    a, b, K, n = task["a"], task["b"], task["K"], task["n"]
    real = {"beta": cm.beta, "bernoulli": cm.bernoulli, "gamma": cm.gamma}
    rng = np.random.default_rng(0)

    def recorded(alpha, eta):
        out = {}
        for bern in (0, 1):
            log = []
            for nm in real:
                setattr(cm, nm, Proxy(real[nm], nm, log, {"beta": eta, "bernoulli": bern, "gamma": 1.0}))
            try:
                cm.GammaPriorConcentrationSampler(a, b, rng).sample(alpha, K, n)
            finally:
                for nm in real:
                    setattr(cm, nm, real[nm])
            out["beta"] = _params("beta", log[0][1], log[0][2])
            out["pi"] = _params("bernoulli", log[1][1], log[1][2])["p"]
            out["g%d" % bern] = _params("gamma", log[2][1], log[2][2])
        return out

    def logpost(x):
        return (a + K - 1) * math.log(x) - b * x + gammaln(x) - gammaln(x + n)

    z = quad(lambda x: math.exp(logpost(x)), 0, np.inf, limit=400)[0]

    def post(x):
        return math.exp(logpost(x)) / z

    worst = 0.0
    for new in task["targets"]:
        def inner(alpha):
            def over_eta(eta):
                r = recorded(alpha, eta)
                dens = (r["pi"] * sgamma.pdf(new, r["g1"]["shape"], scale=r["g1"]["scale"])
                        + (1 - r["pi"]) * sgamma.pdf(new, r["g0"]["shape"], scale=r["g0"]["scale"]))
                return sbeta.pdf(eta, r["beta"]["a"], r["beta"]["b"]) * dens

            return post(alpha) * quad(over_eta, 0, 1, limit=200, epsabs=1e-12, epsrel=1e-9)[0]

        val = quad(inner, 0, np.inf, limit=200, epsabs=1e-12, epsrel=1e-8)[0]
        dev = abs(val - post(new)) / post(new)
        worst = max(worst, dev)
        part.count("evaluations")
        part.count("invariance_integrals")
        if dev > 1e-5:
            part.violation("concentration update does not leave p(alpha | K, n) invariant (numerical integration of the "
                           "recorded kernel)", {"a": a, "b": b, "K": K, "n": n, "alpha_new": new, "kernel_integral": val,
                                                "posterior": post(new)})
    part.maxi("max_invariance_rel_dev", worst)
    part.see("inv|%s|%s|%d|%d" % (a, b, K, n))
    return None, part


def run(ctx):
    from checks import c19

    quick = ctx.tier == "quick"
    ctx.rule = ("random (a, b, alpha in [1e-8,1e3], 1<=K<=n<60) incl. K=1, K=n and the run command's prior (0.01,0.01), "
                "auxiliary variable scripted over a grid in (0,1) incl. 1e-300 and 1-1e-12, both mixture components: "
                "recorded Beta/Bernoulli/Gamma parameters against the Escobar-West formulas; numerical invariance of the "
                "kernel assembled from the recorded parameter functions; call site (K, n, value used afterwards) observed "
                "in real runs; distinct = (K, n, component, eta grid point) / run config")
    ctx.assumptions = ["scipy.stats distributions as installed", "the 1e-10 floor on the returned value is a numerical guard"]
    shards = 16
    tasks = [{"seed": ctx.seed, "shard": i, "count": 320 if quick else 20000} for i in range(shards)]
    ctx.map("checks.c13", "param_task", tasks, timeout=3000)
    rng = np.random.default_rng([ctx.seed, 1313])
    inv = []
    for i in range(4 if quick else 40):
        n = int(rng.integers(2, 12))
        inv.append({"a": float(np.round(rng.uniform(1.2, 4.0), 2)), "b": float(np.round(rng.uniform(0.5, 3.0), 2)),
                    "K": int(rng.integers(1, n + 1)), "n": n, "targets": [0.3, 1.1, 3.7]})
    ctx.map("checks.c13", "invariance_task", inv, timeout=3000)
    c19.run_configs(ctx, 160 if quick else 8000, "conc")
    if ctx.counters.get("concentration_updates_observed", 0) < 50:
        ctx.inconc("call site observed fewer than 50 times")
