"""C04 -- data-point, prune-regraft and subtree moves preserve the same posterior as the whole-tree update.

Same monitor and oracle as C01: exact transition rows of the real moves by exhaustive replay of their random draws,
flow conservation max|pi K - pi| <= 1e-9.  For the subtree move a second, finer oracle recomposes the documented
algorithm (uniform choice of a non-outlier data point, block = subtree under the parent of its clone plus all outliers,
the real conditional-SMC swarm on that block, weights corrected to the full-tree density, final selection) from the
harness side and compares its exact law with the observed law; it is what separates the known finding F7 (state
dependent block selection, see DESIGN.md section 5) from any other defect of the move.
"""

import itertools
import math

import numpy as np

from checks import c01
from vlib import gen, kernelx
from vlib.choice_rng import ChoiceModelError, explore

TOL = 1e-9
PROPOSALS = c01.PROPOSALS


def configs(tier, seed):
    cfgs = []
    alphas = [0.4, 1.0, 2.5]
    k = 0
    nmax_cheap = 3 if tier == "quick" else 4
    for move in ("dp", "prg"):
        for n in range(1, nmax_cheap + 1):
            for op in (0.0, 0.2):
                for (D, G) in ([(1, 5), (2, 3)] if n < 4 else [(1, 4)]):
                    for wiring in (["library", "run"] if n <= 3 else ["run"]):
                        cfgs.append(dict(move=move, n=n, D=D, G=G, outlier_prior=op, alpha=alphas[k % 3], wiring=wiring,
                                         data_seed=seed * 1000 + k % 11))
                        k += 1
    for n in (1, 2):
        for prop, op, wiring, thr in itertools.product(PROPOSALS, [0.0, 0.2], ["library", "run"], [0.5, 1.0]):
            cfgs.append(dict(move="subtree", n=n, D=1, G=5, proposal=prop, outlier_prior=op, wiring=wiring, threshold=thr,
                             N=2, alpha=alphas[k % 3], data_seed=seed * 1000 + k % 11))
            k += 1
    # a single particle in the subtree move and in the sweep
    for prop, op in itertools.product(PROPOSALS, [0.0, 0.2]):
        cfgs.append(dict(move="subtree", n=2, D=1, G=4, proposal=prop, outlier_prior=op, wiring=["library", "run"][k % 2],
                         threshold=0.5, N=1, alpha=alphas[k % 3], data_seed=seed * 1000 + k % 11))
        k += 1
    cfgs.append(dict(move="sweep", n=2, D=1, G=4, proposal=PROPOSALS[seed % 3], outlier_prior=0.2, wiring="run", threshold=0.5,
                     N=1, subtree_update_prob=0.5, alpha=alphas[k % 3], data_seed=seed * 1000 + k % 11))
    k += 1
    # sweep composition: one iteration of the run loop itself (n<=2, where every move conserves flow exactly)
    for prop, op, sp in itertools.product(PROPOSALS, [0.0, 0.2], [0.0, 0.5, 1.0]):
        if tier == "quick" and (k + seed) % 3:
            k += 1
            continue
        cfgs.append(dict(move="sweep", n=2, D=1, G=4, proposal=prop, outlier_prior=op, wiring="run", threshold=0.5, N=2,
                         subtree_update_prob=sp, alpha=alphas[k % 3], data_seed=seed * 1000 + k % 11))
        k += 1
    if tier == "quick":
        n3 = [(PROPOSALS[(seed + 2) % 3], 0.0, ["library", "run"][seed % 2]),
              (PROPOSALS[(seed + 1) % 3], 0.2, ["run", "library"][seed % 2])]
    else:
        n3 = list(itertools.product(PROPOSALS, [0.0, 0.2], ["library", "run"]))
    for prop, op, wiring in n3:
        # start trees named in pre-order, as the run loop hands them to the move after every sweep (clone 0 on top)
        cfgs.append(dict(move="subtree", n=3, D=1, G=4, proposal=prop, outlier_prior=op, wiring=wiring, threshold=0.5,
                         N=2, alpha=alphas[k % 3], data_seed=seed * 1000 + 99, relabel=bool(k % 2 == 0 or tier == "quick")))
        k += 1
    return cfgs


# ----------------------------------------------------------------------------- recomposition of the subtree move
def _attach(rest_forest, rest_nodes, sub_forest, parent_name):
    """Abstract composition: forest of the pruned tree + forest of the resampled block under parent_name."""
    blocks = [list(b) for b in rest_forest.blocks]
    parent = list(rest_forest.parent)
    base = len(blocks)
    pidx = None if parent_name is None else rest_nodes.index(parent_name)
    for i, b in enumerate(sub_forest.blocks):
        blocks.append(list(b))
        p = sub_forest.parent[i]
        parent.append(pidx if p is None else base + p)
    return gen.AForest(blocks, parent, list(rest_forest.outliers) + list(sub_forest.outliers))


def recomposed_task(task):
    """Exact law of the documented subtree algorithm from one start forest, composed by the harness."""
    from vlib.harness import Partial, describe_exception
    from phyclone.mcmc import ParticleGibbsTreeSampler
    from phyclone.utils.dev import clear_proposal_dist_caches

    cfg = task["cfg"]
    part = Partial()
    data = kernelx.config_data(cfg)
    forests = kernelx.config_forests(cfg)
    f = forests[task["start"]]
    td = kernelx.make_tree_dist(cfg)
    law = {}
    try:
        tree0, _ = gen.build_tree(f, data)
        labels = tree0.labels
        out_name = tree0.outlier_node_name
        pts = [d for d, c in labels.items() if c != out_name]
        if not pts:
            return {"start": gen.key_str(f.key()), "law": None, "reason": "all points are outliers"}, part
        roots = {}
        for d in pts:
            r = tree0.get_parent(labels[d])
            roots[r] = roots.get(r, 0) + 1
        npaths = 0
        for r, cnt in roots.items():
            w_r = cnt / len(pts)

            def once(rng):
                clear_proposal_dist_caches()
                kernelx.cold_array_caches()
                tree, _ = gen.build_tree(f, data)
                pg_cfg = dict(cfg, move="pg")
                # the kernel exactly as the configured wiring builds it
                _move, kernel = kernelx.make_move(pg_cfg, rng, td)
                sampler = ParticleGibbsTreeSampler(kernel, rng, num_particles=cfg["N"],
                                                   resample_threshold=cfg["threshold"])
                if r == tree.root_node_name:
                    out = sampler.sample_tree(tree)
                    return [(gen.key_str(gen.tree_key(out)), 1.0)]
                # the block is extracted *abstractly* (no Tree extraction / pruning API): clones under r form the
                # block together with every outlier; the rest keeps the remaining clones and no outliers
                fr, nodes = gen.tree_to_forest(tree)
                ridx = nodes.index(r)
                in_block = set()

                def mark(i):
                    in_block.add(i)
                    for ch in fr.children(i):
                        mark(ch)

                mark(ridx)
                blk = sorted(in_block)
                rest_idx = [i for i in range(fr.K) if i not in in_block]
                sub_forest = gen.AForest([fr.blocks[i] for i in blk],
                                         [None if (fr.parent[i] is None or fr.parent[i] not in in_block)
                                          else blk.index(fr.parent[i]) for i in blk], fr.outliers)
                rest_forest = gen.AForest([fr.blocks[i] for i in rest_idx],
                                          [None if fr.parent[i] is None else rest_idx.index(fr.parent[i]) for i in rest_idx], [])
                rest_nodes = list(range(len(rest_idx)))
                pr = fr.parent[ridx]
                parent = None if pr is None else rest_idx.index(pr)
                sub, _sn = gen.build_tree(sub_forest, data)
                swarm = sampler.sample_swarm(sub)
                ws = []
                keys = []
                for p, w in zip(swarm.particles, swarm.unnormalized_log_weights):
                    S = p.tree
                    sf, _n = gen.tree_to_forest(S)
                    full = _attach(rest_forest, rest_nodes, sf, parent)
                    full_tree, _ = gen.build_tree(full, data)
                    ws.append(float(w) - float(td.log_p_one(S)) + float(td.log_p_one(full_tree)))
                    keys.append(gen.key_str(full.key()))
                ws = np.array(ws)
                W = np.exp(ws - ws.max())
                W /= W.sum()
                return list(zip(keys, [float(x) for x in W]))

            for res, prob, _r in explore(once):
                npaths += 1
                for key, wgt in res:
                    law[key] = law.get(key, 0.0) + w_r * prob * wgt
        part.count("recomposition_paths", npaths)
        part.count("evaluations", npaths)
    except ChoiceModelError as e:
        part.inconc("choice model: %s" % e)
        return None, part
    except Exception as e:
        et, where, msg = describe_exception(e)
        return {"start": gen.key_str(f.key()), "law": None, "reason": "exception %s in %s: %s" % (et, where, msg)}, part
    return {"start": gen.key_str(f.key()), "law": law}, part


def classify_subtree(ctx, cfg, rows, n_forests):
    """Called only when the subtree move does not conserve flow.  True iff the observed law of the move equals, from
    every start tree, the law of the documented algorithm recomposed by the harness AND the whole-tree update is itself
    invariant on this instance (so the loss is explained by the block selection alone)."""
    tasks = [{"cfg": cfg, "start": s} for s in range(n_forests)]
    res = ctx.map("checks.c04", "recomposed_task", tasks, timeout=1800)
    worst = 0.0
    for r in res:
        if r is None:
            return False, "recomposition did not complete"
        if r["law"] is None:
            if r.get("reason") == "all points are outliers":
                continue
            return False, "recomposition failed: %s" % r.get("reason")
        obs = rows[r["start"]]
        for k in set(obs) | set(r["law"]):
            worst = max(worst, abs(obs.get(k, 0.0) - r["law"].get(k, 0.0)))
    ctx.maxi("subtree_observed_vs_recomposed_max_dev", worst)
    if worst > TOL:
        return False, "observed law differs from the recomposed documented algorithm by %.3e" % worst
    pg_cfg = dict(cfg, move="pg")
    pg_tasks = [{"cfg": pg_cfg, "start": s} for s in range(n_forests)]
    pg_res = ctx.map("vlib.kernelx", "row_task", pg_tasks, timeout=1800)
    if any(r is None or "exception" in r for r in pg_res):
        return False, "whole-tree update failed on the same instance"
    pg_rows = {r["start"]: r["row"] for r in pg_res}
    resid = kernelx.flow_residual(kernelx.pi_vector(pg_cfg), pg_rows)[0]
    if resid > TOL:
        return False, "whole-tree update is itself not invariant on this instance (%.3e)" % resid
    return True, "law equals the documented algorithm (dev %.1e); whole-tree update invariant (%.1e)" % (worst, resid)


class _SpyDist(object):
    """Stands in for the tree distribution handed to the data-point and prune-regraft moves: every density they ask for is
    also evaluated on a from-scratch rebuild (memoisation bypassed) of the same candidate tree."""

    def __init__(self, inner, by_idx, fails, stats):
        self._inner, self._by_idx, self._fails, self._stats = inner, by_idx, fails, stats

    def __getattr__(self, name):
        return getattr(self._inner, name)

    def log_p_one(self, tree, *a, **k):
        from vlib import monitors

        v = self._inner.log_p_one(tree, *a, **k)
        self._stats["densities"] = self._stats.get("densities", 0) + 1
        if self._stats["densities"] <= 4000:
            forest, _n = gen.tree_to_forest(tree)
            with monitors.unmemoised():
                fresh, _fn = gen.build_tree(forest, self._by_idx, grid_size=tree.grid_size)
            ref = self._inner.log_p_one(fresh)
            if not abs(float(v) - float(ref)) <= 1e-8 * (1 + abs(float(ref))):
                if not monitors.densities_inside_window(fresh):
                    self._stats["outside_window"] = self._stats.get("outside_window", 0) + 1
                elif len(self._fails) < 3:
                    self._fails.append({"used": float(v), "density_of_the_candidate": float(ref),
                                        "candidate": gen.key_str(forest.key())})
        return v


def sequence_task(task):
    """Sequences of the real moves applied to one tree object as a sweep applies them (no rebuild in between, internal
    layouts left by earlier grafts): the weights with which the data-point and prune-regraft moves choose among their
    candidates must be the joint densities of those candidate trees - otherwise the draw is not the Gibbs conditional
    / the exact reattachment law, whatever the start tree."""
    from vlib.harness import Partial, describe_exception
    from phyclone.mcmc import DataPointSampler, ParticleGibbsSubtreeSampler, PruneRegraphSampler
    from phyclone.smc.kernels import SemiAdaptedKernel
    from phyclone.smc.utils import RootPermutationDistribution
    from phyclone.tree import FSCRPDistribution, TreeJointDistribution
    from phyclone.utils.dev import clear_proposal_dist_caches

    part = Partial()
    for c in range(task["count"]):
        rng = np.random.default_rng([task["seed"], task["shard"], c, 44])
        n = int(rng.integers(4, 8))
        op = [0.0, 0.2][c % 2]
        data = gen.make_data(rng, n, 1 + c % 2, [5, 11][c % 2], kind=["moderate", "smooth"][c % 2], outlier_prior=op)
        by_idx = {dp.idx: dp for dp in data}
        f = gen.random_forest(rng, n, p_outlier=0.15 if op > 0 else 0.0, shape=[None, "chain", "bushy"][c % 3], min_clones=3)
        td = TreeJointDistribution(FSCRPDistribution([0.5, 1.0, 3.0][c % 3]))
        fails, stats = [], {}
        spy = _SpyDist(td, by_idx, fails, stats)
        kernel = SemiAdaptedKernel(td, rng, outlier_proposal_prob=0.1 if op > 0 else 0.0, perm_dist=RootPermutationDistribution())
        moves = {"dp": DataPointSampler(spy, rng, outliers=op > 0).sample_tree, "prg": PruneRegraphSampler(spy, rng).sample_tree,
                 "subtree": ParticleGibbsSubtreeSampler(kernel, rng, num_particles=3, resample_threshold=0.5).sample_tree}
        tree, _names = gen.build_tree(f, data)
        tree.relabel_nodes()
        log = []
        case = {"seed": task["seed"], "shard": task["shard"], "case": c, "n": n, "outlier_prior": op, "start": f.describe()}
        try:
            for step in range(task["steps"]):
                name = ["prg", "dp", "subtree", "dp", "prg", "dp"][int(rng.integers(0, 6))]
                clear_proposal_dist_caches()
                tree = moves[name](tree)
                log.append(name)
                part.count("evaluations")
                part.count("sequence_moves_" + name)
                if fails:
                    break
        except Exception as e:
            et, where, msg = describe_exception(e)
            if where == "outside-repo":
                import traceback
                part.inconc("harness error in move sequence: " + traceback.format_exc()[-700:])
            else:
                part.violation("%s in %s during a sequence of moves (%s)" % (et, where, " ".join(log[-6:])), dict(case, msg=msg))
            continue
        part.count("candidate_densities_recomputed", min(stats.get("densities", 0), 4000))
        part.count("candidate_densities_outside_underflow_window", stats.get("outside_window", 0))
        part.see("seq|%d|%s|%s" % (n, op, gen.key_str(f.key())))
        for fl in fails[:1]:
            part.violation("a move chose among its candidate trees with a weight that is not the joint density of the "
                           "candidate (stale likelihood after earlier moves on the same tree: not the exact conditional)",
                           dict(case, moves=log, **fl))
    return None, part


def run(ctx):
    ctx.rule = ("every start forest over n<=3 (n<=4 thorough for the Gibbs moves) x move (data-point, prune-regraft, "
                "subtree particle Gibbs with 3 proposals) x outliers on/off x wiring; exact transition rows by replaying "
                "every outcome of every random draw; oracle max|pi K - pi| <= 1e-9; distinct = one configuration")
    ctx.assumptions = ["pi is exp(log_p_one) as the code reports it", "ChoiceRNG models numpy draw semantics",
                       "bounded instances (n<=4 cheap moves, n<=3 subtree move, N=2)"]
    cfgs = configs(ctx.tier, ctx.seed)
    tasks = []
    forests_n = {}
    for ci, cfg in enumerate(cfgs):
        key = (cfg["n"], cfg.get("outlier_prior", 0.0) > 0)
        if key not in forests_n:
            forests_n[key] = len(gen.all_forests(cfg["n"], outliers=key[1]))
        for s in range(forests_n[key]):
            tasks.append({"cfg": cfg, "start": s, "ci": ci})
    tasks.sort(key=lambda t: -({"subtree": 100, "sweep": 60, "prg": 2, "dp": 1}[t["cfg"]["move"]] * t["cfg"]["n"]))
    results = ctx.map("vlib.kernelx", "row_task", tasks, timeout=1800)
    rows = {}
    failed = set()
    for t, r in zip(tasks, results):
        if r is None:
            failed.add(t["ci"])
            continue
        if "exception" in r:
            et, where, msg = r["exception"]
            failed.add(t["ci"])
            cond = ""
            if t["cfg"]["move"] == "subtree" and r["start"].startswith("C[]"):
                cond = " when every data point is an outlier"
            ctx.violation("%s in %s during the %s move%s" % (et, where, t["cfg"]["move"], cond),
                          {"cfg": t["cfg"], "start": r["start"], "msg": msg})
            continue
        rows.setdefault(t["ci"], {})[r["start"]] = r["row"]
    for ci, cfg in enumerate(cfgs):
        key = (cfg["n"], cfg.get("outlier_prior", 0.0) > 0)
        if ci in failed or len(rows.get(ci, {})) != forests_n[key]:
            continue
        pi_log = kernelx.pi_vector(cfg)
        resid, where, _all, row_def, unknown, pi = kernelx.flow_residual(pi_log, rows[ci])
        ctx.count("configurations")
        ctx.count("start_trees", forests_n[key])
        ctx.see("%s|n%d|%s|%s|op%s|a%s|D%dG%d|thr%s" % (cfg["move"], cfg["n"], cfg.get("proposal"), cfg.get("wiring"),
                                                        cfg.get("outlier_prior"), cfg["alpha"], cfg["D"], cfg["G"],
                                                        cfg.get("threshold")))
        ctx.maxi("worst_flow_residual_%s" % cfg["move"], resid)
        ctx.maxi("worst_row_sum_defect", row_def)
        ctx.sample({"cfg": cfg, "start_trees": forests_n[key], "max_abs_piK_minus_pi": resid})
        if row_def > 1e-9:
            ctx.violation("path probabilities of the %s move do not sum to one" % cfg["move"], {"cfg": cfg})
        if unknown:
            ctx.violation("%s move reached a tree outside the enumerated forest space" % cfg["move"],
                          {"cfg": cfg, "unknown": unknown[:5]})
        if resid <= TOL:
            continue
        witness = {"cfg": cfg, "max_abs_piK_minus_pi": resid, "at_tree": where}
        if cfg["move"] == "subtree" and ctx.finding_listed("F7") and cfg["n"] >= 3:
            ok, why = classify_subtree(ctx, cfg, rows[ci], forests_n[key])
            witness["classifier"] = why
            if ok:
                ctx.known_finding("F7", "subtree particle-Gibbs move does not conserve flow when the resampled block "
                                        "hangs under an internal clone (state-dependent block selection; n>=3); "
                                        "observed law equals the documented algorithm")
                ctx.maxi("known_F7_flow_residual", resid)
                continue
        ctx.violation("flow not conserved by the %s move: proposal=%s wiring=%s outliers=%s n=%d"
                      % (cfg["move"], cfg.get("proposal"), cfg.get("wiring"),
                         "on" if cfg.get("outlier_prior", 0) > 0 else "off", cfg["n"]), witness)
    stasks = [{"seed": ctx.seed, "shard": i, "count": 6 if ctx.tier == "quick" else 120, "steps": 14} for i in range(16)]
    ctx.map("checks.c04", "sequence_task", stasks, timeout=1800)
    if ctx.counters.get("candidate_densities_recomputed", 0) < 2000:
        ctx.inconc("fewer than 2000 candidate densities recomputed in move sequences")
    if ctx.counters.get("paths", 0) < 1000:
        ctx.inconc("fewer than 1000 replayed paths")
