"""C12 -- result tables list every mutation once per sample, consistent with the tree.

Observed: TABLE + TREE written by write_map_results / write_consensus_results / write_topology_report(archive) on
synthetic traces, clustered (integer ids, as PyClone-VI emits) and unclustered, 1-3 samples, with corner trees recorded
on purpose: single clone, all outliers, one outlier, deep chain, many top-level clones.
"""

import io
import os
import shutil
import tarfile
import tempfile

import numpy as np

from vlib import gen, refmodel, tracegen


def _cid(x):
    """Cluster id as the run names its data point: the id's text (integers without a decimal point)."""
    try:
        if float(x) == int(float(x)) and not isinstance(x, str):
            return str(int(x))
    except (TypeError, ValueError):
        pass
    return str(x)


def corner_forests(n):
    idx = list(range(n))
    out = [("single clone", gen.AForest([idx], [None]))]
    out.append(("all outliers", gen.AForest([], [], idx)))
    if n >= 2:
        out.append(("one outlier", gen.AForest([idx[:-1]], [None], [idx[-1]])))
        out.append(("deep chain", gen.AForest([[i] for i in idx], [None] + list(range(n - 1)))))
        out.append(("many top-level clones", gen.AForest([[i] for i in idx], [None] * n)))
        out.append(("all but one outliers", gen.AForest([[idx[0]]], [None], idx[1:])))
    return out


def check_table(part, case, table, newick_str, data, samples, tree_key_expected, clusters, ccf_ref):
    """The C12 oracle on one TABLE + TREE pair.  ccf_ref: {clone label str: (ccf array, prev array)} or None."""
    nodes = set(tracegen.newick_nodes(tracegen.parse_newick(newick_str))) - {"root"}
    if clusters is None:
        expected_muts = [str(dp.name) for dp in data]
    else:
        expected_muts = [str(m) for m in clusters["mutation_id"].unique()]
    pairs = [(str(r["mutation_id"]), str(r["sample_id"])) for _, r in table.iterrows()]
    want = sorted((m, s) for m in expected_muts for s in samples)
    if sorted(pairs) != want:
        missing = sorted(set(want) - set(pairs))[:5]
        extra = sorted(set(pairs) - set(want))[:5]
        dup = len(pairs) - len(set(pairs))
        part.violation("results table does not list every input mutation exactly once per sample",
                       dict(case, missing=missing, extra=extra, duplicated_rows=dup))
        return False
    ok = True
    clone_of = {}
    for _, r in table.iterrows():
        cid = str(r["clone_id"])
        m = str(r["mutation_id"])
        if cid != "-1" and cid not in nodes:
            part.violation("clone id in the table is not a node of the accompanying Newick tree",
                           dict(case, clone_id=cid, newick=newick_str))
            return False
        if m in clone_of and clone_of[m] != cid:
            part.violation("a mutation is assigned to different clones in different samples", dict(case, mutation=m))
            return False
        clone_of[m] = cid
        ccf, prev = float(r["ccf"]), float(r["clonal_prev"])
        if cid == "-1":
            if ccf != -1 or prev != -1:
                part.violation("outlier rows do not carry ccf = clonal_prev = -1", dict(case, mutation=m, ccf=ccf, prev=prev))
                ok = False
        else:
            if not (-1e-12 <= ccf <= 1 + 1e-12 and -1e-12 <= prev <= 1 + 1e-12):
                part.violation("ccf / clonal prevalence outside [0,1]", dict(case, mutation=m, ccf=ccf, prev=prev))
                ok = False
            if ccf_ref is not None and cid in ccf_ref:
                si = samples.index(str(r["sample_id"]))
                if abs(ccf - ccf_ref[cid][0][si]) > 1e-9 or abs(prev - ccf_ref[cid][1][si]) > 1e-9:
                    part.violation("ccf / clonal prevalence in the table are not those of the mutation's clone",
                                   dict(case, mutation=m, clone=cid, table=[ccf, prev],
                                        clone_values=[float(ccf_ref[cid][0][si]), float(ccf_ref[cid][1][si])]))
                    ok = False
    if clusters is not None:
        by_cluster = {}
        for _, r in clusters.iterrows():
            by_cluster.setdefault(_cid(r["cluster_id"]), set()).add(clone_of[str(r["mutation_id"])])
        for cl, clones in by_cluster.items():
            if len(clones) != 1:
                part.violation("mutations of one cluster are assigned to different clones", dict(case, cluster=cl))
                ok = False
        name_to_idx = {str(dp.name): dp.idx for dp in data}
        key_map = {}
        for _, r in clusters.iterrows():
            if _cid(r["cluster_id"]) not in name_to_idx:
                if clone_of[str(r["mutation_id"])] != "-1":
                    part.violation("mutation of a cluster that has no data point is not reported with clone id -1",
                                   dict(case, mutation=str(r["mutation_id"]), clone=clone_of[str(r["mutation_id"])]))
                    ok = False
                continue
            key_map[name_to_idx[_cid(r["cluster_id"])]] = clone_of[str(r["mutation_id"])]
        key = tracegen.newick_key(tracegen.parse_newick(newick_str), key_map)
    else:
        name_to_idx = {str(dp.name): dp.idx for dp in data}
        key = tracegen.newick_key(tracegen.parse_newick(newick_str), {name_to_idx[m]: c for m, c in clone_of.items()})
    if tree_key_expected is not None and key != tree_key_expected:
        part.violation("table + Newick do not describe the tree they were written for",
                       dict(case, got=gen.key_str(key), expected=gen.key_str(tree_key_expected)))
        ok = False
    return ok


def objective_check(part, case, table, newick_str, data, samples, clusters, what):
    """The CCFs a table reports, read as grid indices on the tree its Newick string describes, attain the maximum of the
    summed per-clone log-likelihoods (independent max-plus recursion over the data of the trace) -- 'CCF ... are those
    of that clone' checked against the data rather than against a second call of the code under test."""
    G = data[0].value.shape[-1]
    D = len(samples)
    name_to_idx = {str(dp.name): dp.idx for dp in data}
    by_idx = {dp.idx: dp for dp in data}
    cl_of_mut = None
    if clusters is not None:
        cl_of_mut = {str(r["mutation_id"]): _cid(r["cluster_id"]) for _, r in clusters.iterrows()}
    members, ccf_of = {}, {}
    for _, r in table.iterrows():
        cid = str(r["clone_id"])
        if cid == "-1":
            continue
        key = str(r["mutation_id"]) if cl_of_mut is None else cl_of_mut[str(r["mutation_id"])]
        if key not in name_to_idx:
            continue
        members.setdefault(cid, set()).add(name_to_idx[key])
        ccf_of.setdefault(cid, {})[str(r["sample_id"])] = float(r["ccf"])
    root = tracegen.parse_newick(newick_str)
    labels, parent = [], []

    def rec(nd, par):
        labels.append(nd[0])
        parent.append(par)
        me = len(labels) - 1
        for ch in nd[1]:
            rec(ch, me)

    for ch in root[1]:
        rec(ch, None)
    if not labels or any(l not in members for l in labels):
        return
    f = gen.AForest([sorted(members[l]) for l in labels], parent)
    own = [sum(by_idx[j].value for j in f.blocks[i]) for i in range(f.K)]
    got = np.zeros(D)
    for i, l in enumerate(labels):
        for d, sname in enumerate(samples):
            k = ccf_of[l][sname] * (G - 1)
            if abs(k - round(k)) > 1e-6 or not 0 <= round(k) <= G - 1:
                return  # off-grid values are reported by C10's oracle
            got[d] += own[i][d, int(round(k))]
    best = refmodel.maxprod_value_recursive(f, own, G)
    part.count("tables_with_ccf_checked_against_the_data")
    gap = float(np.max(best - got))
    if gap > 1e-9 * (1 + float(np.max(np.abs(best)))):
        d = int(np.argmax(best - got))
        part.violation("ccf values in the %s are not those of the clones of its tree: they do not attain the maximum "
                       "summed log-likelihood on that tree" % what,
                       dict(case, sample=samples[d], attained=float(got[d]), maximum=float(best[d]), newick=newick_str,
                            ccf={l: ccf_of[l] for l in labels}))


def relatives(f, rng):
    """Topologies related to f: the same clones with one subtree moved elsewhere, and with all top-level clones but the
    first gathered under the first -- families of distinct trees that share sibling sets and subtrees."""
    out = []
    if f.K >= 2:
        for _ in range(2):
            i = int(rng.integers(0, f.K))
            sub = set()

            def down(j):
                sub.add(j)
                for ch in f.children(j):
                    down(ch)

            down(i)
            cands = [None] + [j for j in range(f.K) if j not in sub]
            new_par = cands[int(rng.integers(0, len(cands)))]
            par = list(f.parent)
            par[i] = new_par
            out.append(gen.AForest(f.blocks, par, f.outliers))
        tops = f.tops()
        if len(tops) >= 2:
            par = list(f.parent)
            for t in tops[1:]:
                par[t] = tops[0]
            out.append(gen.AForest(f.blocks, par, f.outliers))
        nontop = [j for j in range(f.K) if f.parent[j] is not None]
        if nontop:
            par = list(f.parent)
            for j in f.children(f.parent[nontop[0]]):
                par[j] = None
            out.append(gen.AForest(f.blocks, par, f.outliers))
    return out


def table_task(task):
    import pandas as pd
    from vlib.harness import Partial, describe_exception
    from phyclone.process_trace import write_consensus_results, write_map_results, write_topology_report
    from phyclone.process_trace.map import get_map_node_ccfs_and_clonal_prev_dicts
    from phyclone.tree import Tree

    part = Partial()
    tmp = tempfile.mkdtemp(prefix="verif_c12_")
    try:
        for c in range(task["count"]):
            rng = np.random.default_rng([task["seed"], task["shard"], c, 12])
            n = int(rng.integers(1, 6))
            D = int(rng.integers(1, 4))
            G = 11
            clustered = c % 3 == 2
            many = c == 1 and task["shard"] % 4 == 0
            if many:
                # a tree with more than 256 clones / mutations (sizes beyond one byte)
                n, D, G = int(rng.integers(280, 330)), int(rng.integers(1, 3)), 5
                clustered = task["shard"] % 8 == 0
                part.count("traces_of_trees_with_more_than_256_clones")
            # sample names in the loader's order (plain string sort), some with embedded numbers of different lengths
            samples = sorted([["S0", "S1", "S2"], ["T5", "T12", "T101"], ["10", "9", "100"], ["s_b", "s_B", "s_a"]][c % 4][:D])
            data = gen.make_data(rng, n, D, G, kind="smooth")
            if c % 5 == 2 and not many:
                for dp in data:
                    dp.name = "EGFR\u00b7p.L%dR_%s" % (858 + dp.idx, dp.name)  # more bytes than characters
            clusters = None
            if clustered:
                # data points are clusters named by their integer id; a cluster table maps 1-3 mutations to each
                rows = []
                # cluster ids are integers (PyClone-VI) or any text; data points are created in sorted id order
                textual = False  # C12 quantifies over integer cluster ids (as PyClone-VI emits)
                ident = (lambda k: "cl%02d" % k) if textual else (lambda k: k)
                for dp in data:
                    dp.name = str(ident(2 * dp.idx + 3))
                    for j in range(int(rng.integers(1, 4))):
                        rows.append({"mutation_id": "m%d_%d" % (dp.idx, j), "cluster_id": ident(2 * dp.idx + 3)})
                if c % 2 == 0:
                    # clusters of the cluster file that lost all their mutations on loading have no data point: their
                    # mutations are still input mutations and are reported with clone id -1
                    gone = 2 * int(rng.integers(0, n)) + 2
                    for j in range(int(rng.integers(1, 3))):
                        rows.append({"mutation_id": "gone%d_%d" % (gone, j), "cluster_id": ident(gone)})
                if textual:
                    part.count("traces_with_textual_cluster_ids")
                clusters = pd.DataFrame(rows).sort_values(by=["cluster_id", "mutation_id"]).reset_index(drop=True)
            corners = corner_forests(n)
            label, f = corners[c % len(corners)] if c % 2 == 0 else ("random", gen.random_forest(rng, n, p_outlier=0.25))
            if many:
                label, f = "many clones", gen.random_forest(rng, n, max_children=[8, 300][task["shard"] // 4 % 2], p_outlier=0.01,
                                                            shape=[None, "star"][task["shard"] // 4 % 2], min_clones=258)
            others = [gen.random_forest(rng, n, p_outlier=0.2) for _ in range(2)]
            family = c % 4 in (1, 2)
            if family:
                rel = relatives(f, rng)
                if rel:
                    others = rel
                    part.count("traces_of_related_topologies")
            case = {"seed": task["seed"], "shard": task["shard"], "case": c, "n": n, "D": D, "clustered": clustered,
                    "tree": f.describe(), "corner": label}
            # the designated tree gets the best score and the highest count, so that all three commands write it
            results = tracegen.make_trace(rng, data, samples, 1, 6, [f], scores="synthetic", clusters=clusters)
            for ei, e in enumerate(results[0]["trace"]):
                # later records of the designated tree score strictly higher (as after a concentration update)
                e["log_p_one"] = -5.0 - 0.01 * (5 - ei) if c % 2 else -5.0
            extra = tracegen.make_trace(rng, data, samples, 1, 8 if family else 3, others, scores="synthetic", clusters=clusters)
            for e in extra[0]["trace"]:
                e["log_p_one"] = -50.0 - float(rng.random())
            results[0]["trace"].extend(extra[0]["trace"])
            tie = c % 4 == 3 and f.K >= 2
            if tie:
                # an exact half / half split between the designated tree and a conflicting relative: clades with support
                # exactly at the default consensus threshold
                rel = [g for g in relatives(f, rng) if g.key() != f.key()]
                if rel:
                    g = rel[int(rng.integers(0, len(rel)))]
                    results[0]["trace"] = results[0]["trace"][:6]
                    half = tracegen.make_trace(rng, data, samples, 1, 6, [g], scores="synthetic", clusters=clusters)
                    for e in half[0]["trace"]:
                        e["log_p_one"] = -50.0 - float(rng.random())
                    results[0]["trace"].extend(half[0]["trace"])
                    part.count("traces_split_half_and_half")
                else:
                    tie = False
            path = os.path.join(tmp, "trace.pkl.gz")
            tracegen.write_trace(results, path)
            part.count("evaluations")
            part.see("%s|%s|%d|%s" % (label, clustered, D, gen.key_str(f.key())))
            best_i = max(range(6), key=lambda i: (results[0]["trace"][i]["log_p_one"], -i))
            ref_tree_map = Tree.from_dict(results[0]["trace"][best_i]["tree"])
            ref_tree_first = Tree.from_dict(results[0]["trace"][0]["tree"])
            for cmd in ("map", "topology-report", "consensus"):
                case["command"] = cmd
                try:
                    tab, nwk = os.path.join(tmp, "o.tsv"), os.path.join(tmp, "o.nwk")
                    for p in (tab, nwk):
                        if os.path.exists(p):
                            os.unlink(p)
                    expected_key = f.key()
                    if cmd == "map":
                        write_map_results(path, tab, nwk)
                        table, newick = tracegen.read_table(tab), open(nwk).read().strip()
                    elif cmd == "consensus":
                        write_consensus_results(path, tab, nwk, consensus_threshold=0.5,
                                                weight_type="counts" if c % 8 < 4 or not tie else "joint-likelihood")
                        table, newick = tracegen.read_table(tab), open(nwk).read().strip()
                        # 6 of 9 entries are the designated tree: its clades have support >= 2/3; others may add none
                        expected_key = None
                    else:
                        arc = os.path.join(tmp, "a.tar.gz")
                        write_topology_report(path, os.path.join(tmp, "rep.tsv"), topologies_archive=arc, top_trees=50)
                        with tarfile.open(arc, "r:gz") as tf:
                            files = {m.name.split("/")[1]: tf.extractfile(m).read().decode() for m in tf.getmembers()}
                        table = pd.read_csv(io.StringIO(files["t_0_results_table.tsv"]), sep="\t", float_precision="round_trip", keep_default_na=False)
                        newick = files["t_0.nwk"].strip()
                        # every other archived topology: table consistent with its own tree, values those of its clones
                        k = 1
                        while "t_%d.nwk" % k in files:
                            tk = pd.read_csv(io.StringIO(files["t_%d_results_table.tsv" % k]), sep="\t", float_precision="round_trip", keep_default_na=False)
                            nk = files["t_%d.nwk" % k].strip()
                            case["archived_topology"] = k
                            part.count("archived_topologies_checked")
                            if check_table(part, case, tk, nk, data, samples, None, clusters, None):
                                objective_check(part, case, tk, nk, data, samples, clusters, "archived table t_%d" % k)
                            k += 1
                        case.pop("archived_topology", None)
                        if tie:
                            expected_key = None  # two topologies share the highest count
                    if c % 3 == 1:
                        # the command run a second time over its own earlier output files: same content again
                        if cmd == "map":
                            first = open(tab, "rb").read() + open(nwk, "rb").read()
                            write_map_results(path, tab, nwk)
                            again = open(tab, "rb").read() + open(nwk, "rb").read()
                        elif cmd == "consensus":
                            first = open(tab, "rb").read() + open(nwk, "rb").read()
                            write_consensus_results(path, tab, nwk, consensus_threshold=0.5,
                                                    weight_type="counts" if c % 8 < 4 or not tie else "joint-likelihood")
                            again = open(tab, "rb").read() + open(nwk, "rb").read()
                        else:
                            first = (open(os.path.join(tmp, "rep.tsv"), "rb").read(), files)
                            write_topology_report(path, os.path.join(tmp, "rep.tsv"), topologies_archive=arc, top_trees=50)
                            with tarfile.open(arc, "r:gz") as tf:
                                files2 = {m.name.split("/")[1]: tf.extractfile(m).read().decode() for m in tf.getmembers()}
                            again = (open(os.path.join(tmp, "rep.tsv"), "rb").read(), files2)
                        part.count("commands_repeated_over_their_own_output")
                        if first != again:
                            part.violation("%s command writes different results when its output files already exist "
                                           "(second run over its own earlier output)" % cmd, dict(case))
                    part.count("tables_checked")
                    part.count("tables_%s" % cmd)
                    ccf_ref = None
                    if cmd != "consensus" and f.K > 0 and not (tie and cmd == "topology-report"):
                        # per-clone values (C10 owns their optimality): map writes the best entry, the archive the
                        # first recorded copy of the topology
                        ref_tree = ref_tree_map if cmd == "map" else ref_tree_first
                        nodes = tracegen.newick_nodes(tracegen.parse_newick(newick))
                        if sorted(map(str, ref_tree.nodes)) == sorted(x for x in nodes if x != "root"):
                            cc, pp = get_map_node_ccfs_and_clonal_prev_dicts(ref_tree)
                            ccf_ref = {str(k): (cc[k], pp[k]) for k in cc}
                            part.count("tables_with_clone_values_compared")
                    if check_table(part, case, table, newick, data, samples, expected_key, clusters, ccf_ref):
                        part.count("tables_consistent")
                        if cmd != "consensus":
                            objective_check(part, case, table, newick, data, samples, clusters,
                                            "table of the %s command" % cmd)
                    # ccf / prevalence constant per (clone, sample) and feasible on the Newick tree
                    per = {}
                    for _, r in table.iterrows():
                        per.setdefault((str(r["clone_id"]), str(r["sample_id"])), set()).add((float(r["ccf"]), float(r["clonal_prev"])))
                    if any(len(v) != 1 for v in per.values()):
                        part.violation("mutations of one clone carry different ccf / clonal prevalence in one sample", dict(case))
                    else:
                        root = tracegen.parse_newick(newick)

                        def rec(nd, s):
                            own = per.get((nd[0], s))
                            kids = [rec(ch, s) for ch in nd[1]]
                            if own is None:
                                return None
                            ccf, prev = next(iter(own))
                            ksum = sum(k for k in kids if k is not None)
                            if all(k is not None for k in kids) and abs((ccf - ksum) - prev) > 1e-9:
                                part.violation("clonal prevalence in the table is not the clone's ccf minus its children's",
                                               dict(case, clone=nd[0], sample=s, ccf=ccf, children=ksum, prev=prev))
                            return ccf

                        for s in samples:
                            tops = [rec(ch, s) for ch in root[1]]
                            if all(t is not None for t in tops) and sum(tops) > 1 + 1e-9:
                                part.violation("top-level clones' ccf in the table sum to more than one", dict(case, sample=s))
                except Exception as e:
                    et, where, msg = describe_exception(e)
                    if where == "outside-repo":
                        import traceback
                        part.inconc("harness error: " + traceback.format_exc()[-900:])
                    else:
                        cond = " for a tree whose data points are all outliers" if f.K == 0 else ""
                        part.violation("%s in %s: %s command did not complete%s" % (et, where, cmd, cond),
                                       dict(case, msg=msg))
            if len(part.samples) < 2:
                part.sample(dict(case))
    finally:
        shutil.rmtree(tmp, ignore_errors=True)
    return None, part


def real_task(task):
    """TABLE+TREE of the three commands on traces written by the real writer from real chain runs on generated input
    files (clustered with a PyClone-VI style cluster file, or not)."""
    import gzip
    import pickle
    import pandas as pd
    from vlib.harness import Partial, describe_exception
    from checks.c20 import build_trace
    from phyclone.process_trace import write_consensus_results, write_map_results, write_topology_report

    part = Partial()
    tmp = tempfile.mkdtemp(prefix="verif_c12r_")
    try:
        clustered = bool(task["shard"] % 2)
        n_chains = 1 + task["shard"] % 3
        info = {}
        path = build_trace(task["seed"] * 100 + task["shard"], n_chains, clustered, tmp, iters=10, info=info,
                           completion_order=list(range(n_chains))[::-1] if task["shard"] % 4 >= 2 else None)
        with gzip.GzipFile(path, "rb") as fh:
            results = pickle.load(fh)
        data, samples = results[0]["data"], list(results[0]["samples"])
        # ground truth for the clustering is the cluster file the run was given, not what the trace happens to carry
        clusters = None
        if clustered:
            clusters = pd.DataFrame(info["cluster_rows"])[["mutation_id", "cluster_id"]].drop_duplicates()
        case = {"seed": task["seed"], "shard": task["shard"], "real_run": True, "clustered": clustered,
                "n": len(data), "D": len(samples)}
        for cmd in ("map", "topology-report", "consensus"):
            case["command"] = cmd
            try:
                tab, nwk = os.path.join(tmp, "o.tsv"), os.path.join(tmp, "o.nwk")
                if cmd == "map":
                    write_map_results(path, tab, nwk)
                    table, newick = tracegen.read_table(tab), open(nwk).read().strip()
                elif cmd == "consensus":
                    write_consensus_results(path, tab, nwk)
                    table, newick = tracegen.read_table(tab), open(nwk).read().strip()
                else:
                    arc = os.path.join(tmp, "a.tar.gz")
                    write_topology_report(path, os.path.join(tmp, "rep.tsv"), topologies_archive=arc, top_trees=50)
                    with tarfile.open(arc, "r:gz") as tf:
                        files = {m.name.split("/")[1]: tf.extractfile(m).read().decode() for m in tf.getmembers()}
                    table = pd.read_csv(io.StringIO(files["t_0_results_table.tsv"]), sep="\t", float_precision="round_trip", keep_default_na=False)
                    newick = files["t_0.nwk"].strip()
                    k = 1
                    while "t_%d.nwk" % k in files:
                        tk = pd.read_csv(io.StringIO(files["t_%d_results_table.tsv" % k]), sep="\t", float_precision="round_trip", keep_default_na=False)
                        nk = files["t_%d.nwk" % k].strip()
                        case["archived_topology"] = k
                        part.count("archived_topologies_checked")
                        if check_table(part, case, tk, nk, data, samples, None, clusters, None):
                            objective_check(part, case, tk, nk, data, samples, clusters, "archived table t_%d" % k)
                        k += 1
                    case.pop("archived_topology", None)
                part.count("evaluations")
                part.count("tables_checked")
                part.count("tables_from_real_runs")
                part.see("real|%s|%s|%d" % (cmd, clustered, task["shard"]))
                if check_table(part, case, table, newick, data, samples, None, clusters, None):
                    part.count("tables_consistent")
                    if cmd != "consensus":
                        objective_check(part, case, table, newick, data, samples, clusters, "table of the %s command" % cmd)
            except Exception as e:
                et, where, msg = describe_exception(e)
                if where == "outside-repo":
                    import traceback
                    part.inconc("harness error: " + traceback.format_exc()[-900:])
                else:
                    part.violation("%s in %s: %s command did not complete on a real trace" % (et, where, cmd),
                                   dict(case, msg=msg))
    finally:
        shutil.rmtree(tmp, ignore_errors=True)
    return None, part


def run(ctx):
    quick = ctx.tier == "quick"
    ctx.rule = ("synthetic traces whose best and most frequent entry is a designated tree - corner trees (single clone, all "
                "outliers, one outlier, all but one outliers, deep chain, many top-level clones) or random trees with "
                "outliers - over 1-5 data points, 1-3 samples, clustered (integer cluster ids with 1-3 mutations each) or "
                "not, half of them traces of related topologies (one subtree moved, top-level clones gathered / released: shared "
                "sibling sets in other orders); TABLE+TREE of map, every topology of the topology-report archive and "
                "consensus checked, reported CCFs checked against the trace's data by an independent max-plus recursion; "
                "distinct = (corner, clustering, "
                "#samples, canonical tree)")
    ctx.assumptions = ["'CCF ... are those of that clone' is read as: the values the table lists attain the maximum summed "
                       "log-likelihood on the table's own tree (ties accepted), besides per-clone constancy, range and the prevalence identity"]
    shards = 16
    tasks = [{"seed": ctx.seed, "shard": i, "count": 12 if quick else 600} for i in range(shards)]
    ctx.map("checks.c12", "table_task", tasks, timeout=3000)
    ctx.map("checks.c12", "table_task", [dict(t, shard=100 + t["shard"], count=max(4, t["count"] // 4)) for t in tasks[:4]], timeout=3000,
            python_flags=("-O",))  # assertions off
    ctx.map("checks.c12", "real_task", [{"seed": ctx.seed, "shard": i} for i in range(12 if quick else 48)], timeout=3000)
    if ctx.counters.get("archived_topologies_checked", 0) < 50 or ctx.counters.get("tables_with_ccf_checked_against_the_data", 0) < 100:
        ctx.inconc("too few archived topologies / value comparisons")
    if ctx.counters.get("tables_checked", 0) < 200:
        ctx.inconc("too few tables checked")
