"""C07 -- every tree is a well-formed forest; no move loses or duplicates data.

Monitors: (a) tree_wellformed after every edit of generated histories; (b) icontract postconditions attached in place
to every Tree mutator/producer and to every sampler's sample_tree (burn-in SMC, particle Gibbs, subtree, data-point,
prune-regraft) and to ConditionalSMCSampler.__init__ (retained path ends in the input tree), exercised by direct
sampler calls on random trees and by instrumented chain runs of phyclone.run.run_phyclone_chain.
"""

import numpy as np

from vlib import gen


def sampler_task(task):
    from vlib import sampler_mon
    from vlib.harness import Partial, describe_exception
    import phyclone.run as prun
    from phyclone.tree import FSCRPDistribution, TreeJointDistribution
    from phyclone.tree.utils import _convolve_two_children, compute_log_S
    from phyclone.utils.dev import clear_proposal_dist_caches

    sampler_mon.install()
    part = Partial()
    for c in range(task["count"]):
        rng = np.random.default_rng([task["seed"], task["shard"], c, 7])
        n = int(rng.integers(1, task.get("nmax", 7) + 1))
        D = int(rng.integers(1, 3))
        G = int(rng.choice([5, 11]))
        op = float(rng.choice([0.0, 0.0, 0.3]))
        proposal = str(rng.choice(["bootstrap", "semi-adapted", "fully-adapted"]))
        N = int(rng.choice([1, 2, 5]))
        thr = float(rng.choice([0.0, 0.5, 1.0]))
        alpha = float(np.exp(rng.normal()))
        kind = str(rng.choice(["moderate", "smooth", "flat"]))
        data = gen.make_data(rng, n, D, G, kind=kind, outlier_prior=op)
        f = gen.random_forest(rng, n, max_children=6, p_outlier=0.25 if op > 0 else 0.0,
                              shape=[None, "chain", "star", "bushy"][c % 4])
        case = {"seed": task["seed"], "shard": task["shard"], "case": c, "n": n, "D": D, "G": G, "outlier_prior": op,
                "proposal": proposal, "N": N, "threshold": thr, "alpha": alpha, "forest": f.describe()}
        compute_log_S.cache_clear()
        _convolve_two_children.cache_clear()
        clear_proposal_dist_caches()
        sampler_mon.reset()
        sampler_mon.DATA_BY_IDX.clear()
        sampler_mon.DATA_BY_IDX.update({dp.idx: dp for dp in data})
        td = TreeJointDistribution(FSCRPDistribution(alpha))
        sampler_mon.TREE_DISTS[:] = [td]
        sampler_mon.CHECK_REBUILD[0] = kind != "flat" or True
        g = np.random.default_rng([task["seed"], task["shard"], c, 8])
        kernel = prun.setup_kernel(op, proposal, g, td)
        samplers = prun.setup_samplers(kernel, N, op, thr, g, td)
        tree, _ = gen.build_tree(f, data, child_order_rng=rng)
        seq = ["tree_sampler", "dp_sampler", "prg_sampler", "subtree_sampler", "dp_sampler", "prg_sampler",
               "burnin_sampler", "tree_sampler", "subtree_sampler", "subtree_sampler", "tree_sampler"]
        rng.shuffle(seq)
        cur = tree
        try:
            for name in seq[: task.get("moves", 8)]:
                case["move"] = name
                clear_proposal_dist_caches()
                cur = getattr(samplers, name).sample_tree(cur)
                part.count("evaluations")
                part.count("move_" + name)
                part.see("%s|%s" % (name, gen.key_str(gen.tree_key(cur))))
                if name in ("subtree_sampler",) and rng.random() < 0.5:
                    pass
                else:
                    cur.relabel_nodes() if rng.random() < 0.4 else None
        except Exception as e:
            et, where, msg = describe_exception(e)
            if where == "outside-repo":
                import traceback
                part.inconc("harness error: " + traceback.format_exc()[-600:])
            else:
                if task.get("own", "C07") == "C07":
                    part.violation("%s in %s: sampler move %s did not return a tree" % (et, where, case.get("move")),
                                   dict(case, msg=msg))
                else:
                    part.count("exceptions_owned_by_C07")
        for fl in sampler_mon.FAILURES:
            if fl["prop"] == task.get("own", "C07"):
                part.violation(fl["what"], dict(case, where=fl["where"], detail=fl["detail"]))
            else:
                part.count("failures_owned_by_" + fl["prop"])
        for k, v in sampler_mon.COUNTS.items():
            part.count(k, v)
        if len(part.samples) < 2:
            part.sample(dict(case, final=gen.key_str(gen.tree_key(cur))))
    return None, part


def chain_task(task):
    from vlib import sampler_mon
    from vlib.harness import Partial, describe_exception
    import phyclone.run as prun
    from phyclone.tree import FSCRPDistribution, TreeJointDistribution
    from phyclone.tree.utils import _convolve_two_children, compute_log_S

    sampler_mon.install()
    part = Partial()
    for c in range(task["count"]):
        rng = np.random.default_rng([task["seed"], task["shard"], c, 17])
        n = int(rng.integers(1, 7))
        D = int(rng.integers(1, 3))
        G = 11
        op = float(rng.choice([0.0, 0.3]))
        proposal = ["bootstrap", "semi-adapted", "fully-adapted"][c % 3]
        sub = [0.0, 0.5, 1.0][(c // 3) % 3]
        data = gen.make_data(rng, n, D, G, kind="smooth", outlier_prior=op)
        case = {"seed": task["seed"], "shard": task["shard"], "case": c, "n": n, "D": D, "outlier_prior": op,
                "proposal": proposal, "subtree_update_prob": sub}
        compute_log_S.cache_clear()
        _convolve_two_children.cache_clear()
        sampler_mon.reset()
        sampler_mon.DATA_BY_IDX.clear()
        sampler_mon.DATA_BY_IDX.update({dp.idx: dp for dp in data})
        sampler_mon.TREE_DISTS[:] = []
        sampler_mon.CHECK_REBUILD[0] = True
        g = np.random.default_rng([task["seed"], task["shard"], c, 18])
        try:
            res = prun.run_phyclone_chain(2, bool(c % 2), 1.0, data, float("inf"), task.get("iters", 6),
                                          int(rng.choice([2, 4])), 1, 1, op, 1000, proposal,
                                          float(rng.choice([0.5, 1.0])), g, ["s%d" % i for i in range(D)], 1, 0, sub)
            part.count("evaluations")
            part.count("chain_runs")
            part.see("chain|%s|%s|%s|%s" % (proposal, op, sub, n))
            if len(res["trace"]) != task.get("iters", 6) + 1:
                part.violation("chain run recorded an unexpected number of entries", dict(case, entries=len(res["trace"])))
        except Exception as e:
            et, where, msg = describe_exception(e)
            if where == "outside-repo":
                import traceback
                part.inconc("harness error: " + traceback.format_exc()[-600:])
            else:
                if task.get("own", "C07") == "C07":
                    part.violation("%s in %s during an instrumented chain run" % (et, where), dict(case, msg=msg))
                else:
                    part.count("exceptions_owned_by_C07")
        for fl in sampler_mon.FAILURES:
            if fl["prop"] == task.get("own", "C07"):
                part.violation(fl["what"], dict(case, where=fl["where"], detail=fl["detail"]))
            else:
                part.count("failures_owned_by_" + fl["prop"])
        for k, v in sampler_mon.COUNTS.items():
            part.count(k, v)
    return None, part


def run(ctx):
    quick = ctx.tier == "quick"
    shards = 16
    ctx.rule = ("(a) generated edit histories (see C06) with tree_wellformed on source and product of every edit; "
                "(b) direct calls of the five samplers' sample_tree on random trees (<=7 points, up to 6 children, shuffled "
                "sibling order, non-dense names) and (c) instrumented run_phyclone_chain runs, with icontract "
                "postconditions on every Tree mutator/producer, every sample_tree and the retained path; "
                "distinct = (operation or move, resulting canonical tree)")
    ctx.assumptions = ["only states at public method boundaries are checked (no mid-update states)",
                       "empty clones and any naming scheme are allowed"]
    tasks = [{"seed": ctx.seed, "shard": i, "count": 8 if quick else 300, "steps": 50 if quick else 120, "nmax": 8, "big": 1 if quick else 4, "big_steps": 20,
              "monitors": ["wellformed"]} for i in range(shards)]
    ctx.map("vlib.histrun", "history_task", tasks, timeout=3000)
    # the same with assert statements switched off (python -O): no edit or move may depend on a side effect of an assertion
    otasks = [dict(t, shard=100 + t["shard"], count=max(3, t["count"] // 4), big=0) for t in tasks[:4 if quick else 16]]
    ctx.map("vlib.histrun", "history_task", otasks, timeout=3000, python_flags=("-O",))
    tasks = [{"seed": ctx.seed, "shard": i, "count": 10 if quick else 150, "moves": 8} for i in range(shards)]
    ctx.map("checks.c07", "sampler_task", tasks, timeout=3000)
    ctx.map("checks.c07", "sampler_task", [dict(t, shard=100 + t["shard"], count=max(4, t["count"] // 3)) for t in tasks[:4 if quick else 16]],
            timeout=3000, python_flags=("-O",))
    tasks = [{"seed": ctx.seed, "shard": i, "count": 4 if quick else 40, "iters": 5 if quick else 10} for i in range(shards)]
    ctx.map("checks.c07", "chain_task", tasks, timeout=3000)
    for k in ("wellformed_evaluations", "tree_invariant", "retained_path", "boundary_ParticleGibbsTreeSampler",
              "boundary_ParticleGibbsSubtreeSampler", "boundary_DataPointSampler", "boundary_PruneRegraphSampler",
              "boundary_UnconditionalSMCSampler"):
        if ctx.counters.get(k, 0) < 20:
            ctx.inconc("monitor %s evaluated only %d times" % (k, ctx.counters.get(k, 0)))
