"""Failpoints for real `phyclone` subprocesses (C18, C20).  Picked up because /verif/hooks is put on PYTHONPATH by the
checks.  Inert unless PHYCLONE_VERIF=1 *and* one of the VERIF_* failpoint variables is set.

VERIF_CHAIN_DELAYS   JSON {"start": {"<chain>": seconds}, "finish": {"<chain>": seconds},
                     "finish_after": {"<chain>": [chains]}}: sleep before / after the body of
                     phyclone.run.run_phyclone_chain for that chain, or hold its return until the named chains have
                     logged their finish (the body itself is untouched) - reorders the completion of parallel chains on
                     demand, by logical order rather than by a wall-clock guess.
VERIF_CHAIN_LOG      file to which every chain appends "<chain> <event> <monotonic time> <pid>".
VERIF_WRITE_FAULT    JSON {"at": N, "mode": "kill" | "enospc"}: the N-th byte written through gzip.GzipFile's underlying
                     file object is the last one that reaches the file; then the process dies (os._exit) or the write
                     raises OSError(ENOSPC).
"""

import os

if os.environ.get("PHYCLONE_VERIF") == "1":
    _delays = os.environ.get("VERIF_CHAIN_DELAYS")
    _chain_log = os.environ.get("VERIF_CHAIN_LOG")
    _fault = os.environ.get("VERIF_WRITE_FAULT")

    if _delays or _chain_log:
        import functools
        import json
        import time

        try:
            import phyclone.run as _prun

            _cfg = json.loads(_delays) if _delays else {}
            _orig = _prun.run_phyclone_chain

            @functools.wraps(_orig)
            def run_phyclone_chain(*args, **kwargs):
                chain = args[16] if len(args) > 16 else kwargs.get("chain_num")

                def log(ev):
                    if _chain_log:
                        with open(_chain_log, "a") as fh:
                            fh.write("%s %s %.6f %d\n" % (chain, ev, time.monotonic(), os.getpid()))

                d = _cfg.get("start", {}).get(str(chain))
                if d:
                    time.sleep(float(d))
                log("start")
                res = _orig(*args, **kwargs)
                d = _cfg.get("finish", {}).get(str(chain))
                if d:
                    time.sleep(float(d))
                waits = _cfg.get("finish_after", {}).get(str(chain))
                if waits and _chain_log:
                    # logical ordering instead of a wall-clock guess: wait until the named chains have finished
                    deadline = time.monotonic() + 900
                    while time.monotonic() < deadline:
                        try:
                            done = set(l.split()[0] for l in open(_chain_log) if l.split()[1:2] == ["finish"])
                        except OSError:
                            done = set()
                        if all(str(w) in done for w in waits):
                            break
                        time.sleep(0.05)
                    time.sleep(1.0)
                log("finish")
                return res

            _prun.run_phyclone_chain = run_phyclone_chain
        except Exception as _e:  # never break the program under test because of the hook
            import sys

            sys.stderr.write("verif sitecustomize: chain hook not installed: %r\n" % (_e,))

    if _fault:
        import errno
        import gzip
        import json

        _f = json.loads(_fault)

        class _FaultyFile(object):
            def __init__(self, raw):
                self._raw = raw
                self._n = raw.tell()  # the gzip header is written by GzipFile.__init__ before this wrapper exists

            def write(self, b):
                b = bytes(b)
                room = int(_f["at"]) - self._n
                if len(b) <= room:
                    self._n += len(b)
                    return self._raw.write(b)
                if room > 0:
                    self._raw.write(b[:room])
                    self._n += room
                self._raw.flush()
                if self._n > int(_f["at"]):
                    self._raw.truncate(int(_f["at"]))  # a cut inside the header
                try:
                    os.fsync(self._raw.fileno())
                except Exception:
                    pass
                if _f.get("mode") == "enospc":
                    raise OSError(errno.ENOSPC, "No space left on device (injected)")
                os._exit(137)

            def __getattr__(self, name):
                return getattr(self._raw, name)

        _orig_init = gzip.GzipFile.__init__

        def _init(self, filename=None, mode=None, compresslevel=9, fileobj=None, mtime=None):
            _orig_init(self, filename, mode, compresslevel, fileobj, mtime)
            if mode and "w" in mode:
                self.fileobj = _FaultyFile(self.fileobj)

        gzip.GzipFile.__init__ = _init
