"""Failpoints for real `phyclone` subprocesses (C18, C20).  Picked up because /verif/hooks is put on PYTHONPATH by the
checks.  Inert unless PHYCLONE_VERIF=1 *and* one of the VERIF_* failpoint variables is set.

VERIF_CHAIN_DELAYS   JSON {"start": {"<chain>": seconds}, "finish": {"<chain>": seconds},
                     "finish_after": {"<chain>": [chains]}}: sleep before / after the body of
                     phyclone.run.run_phyclone_chain for that chain, or hold its return until the named chains have
                     logged their finish (the body itself is untouched) - reorders the completion of parallel chains on
                     demand, by logical order rather than by a wall-clock guess.  "die": {"<chain>": "exit" | "raise"}:
                     after that wait the chain's worker process dies (os._exit) or the chain raises instead of
                     returning - the run is interrupted after some chains completed and before the others did.
VERIF_CHAIN_LOG      file to which every chain appends "<chain> <event> <monotonic time> <pid>".
VERIF_WRITE_FAULT    JSON {"at": N, "mode": "kill" | "enospc", "cumulative": bool, "marker": path}: the N-th byte written
                     through gzip.GzipFile's underlying file object (of each file, or - cumulative - of all files of the
                     process together) is the last one that reaches the file; then the process dies (os._exit) or the
                     write raises OSError(ENOSPC).  The marker file is created when the fault fires.
VERIF_CLOCK_SKEW     JSON {"seed": S, "max": seconds}: every reading of time.perf_counter / perf_counter_ns / process_time /
                     time.time (and so timeit's default timer) is the real reading plus a drift that grows by a seeded
                     random amount in [0, max] per call - clocks stay monotone but every measured interval is perturbed,
                     as it is by load, frequency scaling or another host.  time.monotonic (used by the interpreter's own
                     waits) is left alone.
"""

import os

if os.environ.get("PHYCLONE_VERIF") == "1" and os.environ.get("VERIF_CLOCK_SKEW"):
    import json as _json
    import random as _random
    import time as _time

    _sk = _json.loads(os.environ["VERIF_CLOCK_SKEW"])
    _sk_rng = _random.Random("%s-%d" % (_sk.get("seed", 0), os.getpid() % 7))
    _sk_state = [0.0]
    _sk_max = float(_sk.get("max", 0.02))

    def _skewed(real, scale=1.0, cast=float):
        def clock():
            _sk_state[0] += _sk_rng.random() * _sk_max
            return cast(real() + _sk_state[0] * scale)

        return clock

    _time.perf_counter = _skewed(_time.perf_counter)
    _time.perf_counter_ns = _skewed(_time.perf_counter_ns, 1e9, int)
    _time.process_time = _skewed(_time.process_time)
    _time.time = _skewed(_time.time)

if os.environ.get("PHYCLONE_VERIF") == "1":
    _delays = os.environ.get("VERIF_CHAIN_DELAYS")
    _chain_log = os.environ.get("VERIF_CHAIN_LOG")
    _fault = os.environ.get("VERIF_WRITE_FAULT")

    if _delays or _chain_log:
        import functools
        import json
        import time

        try:
            import phyclone.run as _prun

            _cfg = json.loads(_delays) if _delays else {}
            _orig = _prun.run_phyclone_chain

            @functools.wraps(_orig)
            def run_phyclone_chain(*args, **kwargs):
                chain = args[16] if len(args) > 16 else kwargs.get("chain_num")

                def log(ev):
                    if _chain_log:
                        with open(_chain_log, "a") as fh:
                            fh.write("%s %s %.6f %d\n" % (chain, ev, time.monotonic(), os.getpid()))

                d = _cfg.get("start", {}).get(str(chain))
                if d:
                    time.sleep(float(d))
                log("start")
                res = _orig(*args, **kwargs)
                d = _cfg.get("finish", {}).get(str(chain))
                if d:
                    time.sleep(float(d))
                waits = _cfg.get("finish_after", {}).get(str(chain))
                if waits and _chain_log:
                    # logical ordering instead of a wall-clock guess: wait until the named chains have finished
                    deadline = time.monotonic() + 900
                    while time.monotonic() < deadline:
                        try:
                            done = set(l.split()[0] for l in open(_chain_log) if l.split()[1:2] == ["finish"])
                        except OSError:
                            done = set()
                        if all(str(w) in done for w in waits):
                            break
                        time.sleep(0.05)
                    time.sleep(1.0)
                die = _cfg.get("die", {}).get(str(chain))
                if die:
                    # crash point of the run as a whole: this chain's worker is lost (killed) or its result is an
                    # exception, after the chains named in finish_after have been handed back to the parent
                    log("die")
                    if die == "exit":
                        os._exit(137)
                    raise MemoryError("injected chain failure (verif failpoint)")
                log("finish")
                return res

            _prun.run_phyclone_chain = run_phyclone_chain
        except Exception as _e:  # never break the program under test because of the hook
            import sys

            sys.stderr.write("verif sitecustomize: chain hook not installed: %r\n" % (_e,))

    if _fault:
        import errno
        import gzip
        import json

        _f = json.loads(_fault)

        class _FaultyFile(object):
            _before = [0]  # bytes that reached earlier files of this process (cumulative mode)

            def __init__(self, raw):
                self._raw = raw
                self._n = raw.tell()  # the gzip header is written by GzipFile.__init__ before this wrapper exists
                self._base = _FaultyFile._before[0] if _f.get("cumulative") else 0
                if _f.get("cumulative"):
                    _FaultyFile._before[0] += self._n

            def write(self, b):
                b = bytes(b)
                room = int(_f["at"]) - self._base - self._n
                if _f.get("cumulative") and len(b) <= room:
                    _FaultyFile._before[0] += len(b)
                if len(b) <= room:
                    self._n += len(b)
                    return self._raw.write(b)
                if room > 0:
                    self._raw.write(b[:room])
                    self._n += room
                self._raw.flush()
                if _f.get("marker"):
                    with open(_f["marker"], "w") as _mk:
                        _mk.write("fault injected after %d bytes of this file\n" % self._n)
                if self._n > int(_f["at"]) - self._base:
                    self._raw.truncate(max(0, int(_f["at"]) - self._base))  # a cut inside the header
                try:
                    os.fsync(self._raw.fileno())
                except Exception:
                    pass
                if _f.get("mode") == "enospc":
                    raise OSError(errno.ENOSPC, "No space left on device (injected)")
                os._exit(137)

            def __getattr__(self, name):
                return getattr(self._raw, name)

        _orig_init = gzip.GzipFile.__init__

        def _init(self, filename=None, mode=None, compresslevel=9, fileobj=None, mtime=None):
            _orig_init(self, filename, mode, compresslevel, fileobj, mtime)
            if mode and "w" in mode:
                self.fileobj = _FaultyFile(self.fileobj)

        gzip.GzipFile.__init__ = _init
