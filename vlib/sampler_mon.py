"""icontract postconditions attached (from outside, in place) to the real samplers and Tree mutators.

install() is idempotent; the conditions *record* into COUNTS / FAILURES and return True so that a broken clause does not
abort what it observes (the harness decides afterwards); evaluations are counted, zero evaluations = inconclusive.
"""

import icontract

from vlib import gen, monitors
from vlib.monitors import Broken

COUNTS = {}
FAILURES = []
_installed = [False]
DATA_BY_IDX = {}
TREE_DISTS = []
CHECK_REBUILD = [False]


class PostBroken(Exception):
    pass


def _count(k, n=1):
    COUNTS[k] = COUNTS.get(k, 0) + n


def _fail(where, b, prop="C07"):
    if len(FAILURES) < 50:
        FAILURES.append({"where": where, "what": b.what, "detail": b.detail, "prop": prop})


def reset():
    COUNTS.clear()
    del FAILURES[:]


def _idxs(tree):
    return sorted(tree.labels.keys())


def _sampler_post(name):
    def post(tree, result, OLD):
        _count("boundary_" + name)
        try:
            monitors.tree_wellformed(result, expect_idxs=OLD.idxs)
        except Broken as b:
            _fail("%s.sample_tree" % name, Broken("%s returned a tree that breaks: %s" % (name, b.what), b.detail), "C07")
            return True
        if CHECK_REBUILD[0] and DATA_BY_IDX:
            try:
                st = {}
                monitors.rebuild_equal(result, DATA_BY_IDX, TREE_DISTS, stats=st)
                _count("boundary_rebuild")
                _count("boundary_outside_window", st.get("outside_window", 0))
            except Broken as b:
                _fail("%s.sample_tree" % name, Broken("%s returned a tree whose %s" % (name, b.what), b.detail), "C06")
        return True

    return post


def _snap_idxs(tree):
    return _idxs(tree)


def _retained_post(self, current_tree):
    _count("retained_path")
    try:
        last = self.constrained_path[-1].tree
        if gen.tree_key(last) != gen.tree_key(current_tree):
            raise Broken("retained particle path does not end in the input tree",
                         {"input": gen.key_str(gen.tree_key(current_tree)), "retained": gen.key_str(gen.tree_key(last))})
        if len(self.constrained_path) != len(self.data_points) + 1:
            raise Broken("retained path length is not #data points + 1")
        # every generation holds exactly the first t points of the order
        for t, p in enumerate(self.constrained_path[1:], start=1):
            have = sorted(p.tree.labels.keys()) if t in (1, len(self.constrained_path) - 1) else None
            if have is not None and have != sorted(dp.idx for dp in self.data_points[:t]):
                raise Broken("retained path generation %d does not hold the first %d points of the order" % (t, t))
    except Broken as b:
        _fail("ConditionalSMCSampler.__init__", b)
    return True


def _mutator_post(name):
    def post(self):
        _count("tree_invariant")
        try:
            monitors.tree_wellformed(self)
        except Broken as b:
            _fail("Tree.%s" % name, Broken("after Tree.%s: %s" % (name, b.what), b.detail))
        return True

    return post


def _result_post(name):
    def post(result):
        _count("tree_invariant")
        try:
            monitors.tree_wellformed(result)
        except Broken as b:
            _fail("Tree.%s" % name, Broken("result of Tree.%s: %s" % (name, b.what), b.detail))
        return True

    return post


MUTATORS = ["add_data_point_to_node", "add_data_point_to_outliers", "add_subtree", "create_root_node", "relabel_nodes",
            "remove_data_point_from_node", "remove_data_point_from_outliers", "remove_subtree", "update"]
PRODUCERS = ["copy", "get_subtree"]


def install(tree_invariant=True):
    if _installed[0]:
        return
    _installed[0] = True
    from phyclone.mcmc.gibbs_mh import DataPointSampler, PruneRegraphSampler
    from phyclone.mcmc.particle_gibbs import ParticleGibbsSubtreeSampler, ParticleGibbsTreeSampler
    from phyclone.smc.samplers.conditional import ConditionalSMCSampler
    from phyclone.smc.samplers.unconditional import UnconditionalSMCSampler
    from phyclone.tree import Tree

    for cls, name in ((DataPointSampler, "DataPointSampler"), (PruneRegraphSampler, "PruneRegraphSampler"),
                      (ParticleGibbsTreeSampler, "ParticleGibbsTreeSampler"),
                      (ParticleGibbsSubtreeSampler, "ParticleGibbsSubtreeSampler"),
                      (UnconditionalSMCSampler, "UnconditionalSMCSampler")):
        if "sample_tree" in cls.__dict__:
            fn = cls.__dict__["sample_tree"]
            fn = icontract.ensure(_sampler_post(name), error=PostBroken, enabled=True)(fn)
            fn = icontract.snapshot(_snap_idxs, name="idxs", enabled=True)(fn)
            setattr(cls, "sample_tree", fn)
    ConditionalSMCSampler.__init__ = icontract.ensure(_retained_post, error=PostBroken, enabled=True)(ConditionalSMCSampler.__init__)
    if tree_invariant:
        for m in MUTATORS:
            setattr(Tree, m, icontract.ensure(_mutator_post(m), error=PostBroken, enabled=True)(Tree.__dict__[m]))
        for m in PRODUCERS:
            setattr(Tree, m, icontract.ensure(_result_post(m), error=PostBroken, enabled=True)(Tree.__dict__[m]))
        fd = Tree.__dict__["from_dict"].__func__
        Tree.from_dict = classmethod(icontract.ensure(_result_post("from_dict"), error=PostBroken, enabled=True)(fd))
