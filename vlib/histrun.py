"""Runner for generated edit histories with the C06 / C07 / C15 monitors switched on per check."""

import gzip
import os
import pickle
import tempfile

import numpy as np

from vlib import edits, gen, monitors
from vlib.monitors import Broken


def clade_names(tree):
    """{clade (frozenset of data idx): clone name}; None if two clones share a clade (empty clones)."""
    node_data = tree.node_data
    out = {}

    def rec(node):
        s = set(dp.idx for dp in node_data.get(node, []))
        for c in tree.get_children(node):
            s |= rec(c)
        fs = frozenset(s)
        out[fs] = None if fs in out else node
        return s

    for r in tree.roots:
        rec(r)
    return out


def trees_equivalent(a, b, tds, rel=1e-8, strict_names=True):
    """C15 oracle for a restored copy: same clades, outliers, node labels, per-node vectors, joint densities.
    strict_names=False (after a relabel applied to both): clones are matched by clade instead of by name."""
    if sorted(dp.idx for dp in a.outliers) != sorted(dp.idx for dp in b.outliers):
        raise Broken("restored tree has different outliers")
    if gen.tree_key(a) != gen.tree_key(b):
        raise Broken("restored tree has different clades",
                     {"orig": gen.key_str(gen.tree_key(a)), "restored": gen.key_str(gen.tree_key(b))})
    ca, cb = clade_names(a), clade_names(b)
    if strict_names:
        if sorted(map(repr, a.nodes)) != sorted(map(repr, b.nodes)):
            raise Broken("restored tree has different clone names",
                         {"a": sorted(map(repr, a.nodes)), "b": sorted(map(repr, b.nodes))})
        if a.labels != b.labels:
            raise Broken("restored tree assigns data points to different clones")
        for n in a.nodes:
            if a.get_parent(n) != b.get_parent(n):
                raise Broken("restored tree has a different parent for a clone", {"clone": repr(n)})
        if a.node_last_added_to != b.node_last_added_to:
            raise Broken("restored tree lost the last-edited clone")
    va, vb = monitors.node_vectors(a), monitors.node_vectors(b)
    worst = 0.0
    pairs = [(ca[c], cb[c], c) for c in ca if ca[c] is not None and cb.get(c) is not None]
    if len(a.roots) > 0:
        pairs.append((a.root_node_name, b.root_node_name, "root"))
    win = None
    outside = 0
    for na, nb, clade in pairs:
        for k, which in ((0, "own"), (1, "subtree")):
            ok, dev = monitors.close(va[na][k], vb[nb][k], rel)
            if not ok and k == 1:
                if win is None:
                    forest, names = gen.tree_to_forest(a)
                    win = (monitors.Window(forest, {dp.idx: dp for dp in a.data}, a.grid_size), names)
                which_i = "root" if clade == "root" else win[1].index(na)
                if not win[0].real(which_i, va[na][k], vb[nb][k], rel):
                    outside += 1
                    continue
            worst = max(worst, dev if np.isfinite(dev) else 0.0)
            if not ok:
                raise Broken("restored tree's %s likelihood vector differs" % which, {"clone": repr(na), "dev": dev})
    if not outside:
        for td in tds:
            for fn in ("log_p", "log_p_one"):
                x, y = float(getattr(td, fn)(a)), float(getattr(td, fn)(b))
                ok, dev = monitors.close(x, y, rel)
                if not ok:
                    raise Broken("restored tree's %s differs" % fn, {"orig": x, "restored": y})
    if not (a == b) or hash(a) != hash(b):
        raise Broken("restored tree does not compare / hash equal to the original")
    return worst


def translate(d, main, shadow):
    """Re-express an edit descriptor chosen on the main tree in the shadow's clone names (matched by clade)."""
    cm, cs = clade_names(main), clade_names(shadow)
    inv = {repr(n): c for c, n in cm.items() if n is not None}

    def tr(name):
        if name is None or name == main.outlier_node_name or name == main.root_node_name:
            return name
        return cs[inv[repr(name)]]

    out = dict(d)
    for k in ("node", "src", "dst", "parent", "root", "witness_parent"):
        if k in out:
            out[k] = tr(out[k])
    if "children" in out:
        out["children"] = [tr(c) for c in out["children"]]
    return out


def dict_fingerprint(d):
    return repr((sorted((repr(k), [dp.idx for dp in v]) for k, v in d["node_data"].items()),
                 sorted((repr(k), v) for k, v in d["node_idx"].items()), list(d["graph"]), repr(d["node_last_added_to"])))


def edit_in_place(tree, rng):
    """In-place edits of the kind the subtree sampler applies to the tree it is handed (itself usually a tree restored
    from a particle's dictionary): take an outlier out and put it back, move a data point out of a clone and back."""
    outs = tree.outliers
    if outs:
        dp = outs[int(rng.integers(0, len(outs)))]
        tree.remove_data_point_from_outliers(dp)
        n_edits = 1
    else:
        n_edits = 0
    for node in tree.nodes:
        if tree.get_data_len(node) > 1:
            dp = tree.get_data(node)[0]
            tree.remove_data_point_from_node(dp, node)
            tree.add_data_point_to_outliers(dp)
            n_edits += 1
            break
    return n_edits


def restore(tree, how, tmpdir, keep_dict=False):
    from phyclone.tree import Tree

    d = tree.to_dict()
    if how == "dict":
        return (Tree.from_dict(d), d) if keep_dict else Tree.from_dict(d)
    if how == "pickle":
        return Tree.from_dict(pickle.loads(pickle.dumps(d, protocol=pickle.HIGHEST_PROTOCOL)))
    if how == "gzip":
        path = os.path.join(tmpdir, "t.pkl.gz")
        with gzip.GzipFile(path, mode="wb") as fh:
            pickle.dump({0: {"trace": [{"tree": d}]}}, fh)
        with gzip.GzipFile(path, "rb") as fh:
            back = pickle.load(fh)
        return Tree.from_dict(back[0]["trace"][0]["tree"])
    raise ValueError(how)


def history_task(task):
    """One shard: ``count`` histories of ``steps`` steps.  task['monitors'] subset of {'rebuild','wellformed','serial'}."""
    from vlib.harness import Partial, describe_exception
    from phyclone.tree import FSCRPDistribution, Tree, TreeJointDistribution
    from phyclone.tree.utils import _convolve_two_children, compute_log_S

    part = Partial()
    mons = set(task["monitors"])
    tds = [TreeJointDistribution(FSCRPDistribution(a)) for a in (0.3, 1.7)]
    tmpdir = tempfile.mkdtemp(prefix="verif_hist_")
    try:
        for h in range(task["count"]):
            rng = np.random.default_rng([task["seed"], task["shard"], h])
            n = int(rng.integers(2, task.get("nmax", 8) + 1))
            D = int(rng.integers(1, 4))
            G = int(rng.choice([3, 5, 11, 21]))
            big = task.get("big") and h < task["big"]
            if big:
                # trees with more than 256 clones / data points (sizes beyond one byte), few steps
                n = int(rng.integers(290, 340))
                D, G = int(rng.integers(1, 3)), int(rng.choice([3, 5]))
            kind = str(rng.choice(["moderate", "smooth", "binom", "flat", "twins", "scales"], p=[0.3, 0.2, 0.15, 0.05, 0.15, 0.15]))
            op = float(rng.choice([0.0, 0.2]))
            data = gen.make_data(rng, n, D, G, kind=kind, outlier_prior=op)
            by_idx = {dp.idx: dp for dp in data}
            compute_log_S.cache_clear()
            _convolve_two_children.cache_clear()
            init = None
            if big:
                keep = n - int(rng.integers(3, 12))
                sub = gen.random_forest(rng, keep, max_children=[8, 300][h % 2], p_outlier=[0.0, 0.02][h % 2],
                                        shape=[None, "bushy", "star", "chain"][(h + task["shard"]) % 4], min_clones=258)
                init = sub
                part.count("big_histories")
            hist = edits.History(rng, data, allow_outliers=True, initial_forest=init)
            frozen = []  # (tree, digest) alias guard ring
            shadows = []  # [tree, how, steps_left]
            parked = []  # (original, restored copy left untouched) re-checked after later restorations
            case = {"seed": task["seed"], "shard": task["shard"], "history": h, "n": n, "D": D, "G": G, "kind": kind}
            try:
                for s in range(task["steps"] if not big else task.get("big_steps", 20)):
                    before = monitors.digest(hist.tree) if "rebuild" in mons else None
                    d, old, new = hist.step()
                    part.count("evaluations")
                    part.count("op_" + d["op"])
                    if "wellformed" in mons:
                        monitors.tree_wellformed(new, expect_idxs=sorted(set(by_idx) - set(hist.unassigned)))
                        monitors.tree_wellformed(old)
                        part.count("wellformed_evaluations", 2)
                        for label, it in hist.inter:
                            try:
                                monitors.tree_wellformed(it)
                            except Broken as b:
                                raise Broken("%s: %s" % (label, b.what), b.detail)
                            part.count("wellformed_evaluations")
                    if "rebuild" in mons:
                        st = {}
                        want = sorted(set(by_idx) - set(hist.unassigned))
                        have = sorted(new.labels.keys())
                        if have != want:
                            # the rebuild oracle takes shape and assignment from the edited tree itself: an edit that
                            # silently loses part of the assignment must not pass as "equal to the rebuild of what is left"
                            raise Broken("edited tree no longer holds the assignment it was given: its likelihoods and joint "
                                         "densities are those of another assignment", {"holds": have, "given": want})
                        dev = monitors.rebuild_equal(new, by_idx, tds, stats=st)
                        part.count("trees_outside_underflow_window", st.get("outside_window", 0))
                        part.maxi("max_rebuild_dev", dev)
                        part.count("rebuild_evaluations")
                        for label, it in hist.inter:
                            try:
                                monitors.rebuild_equal(it, by_idx, tds, stats=st)
                            except Broken as b:
                                raise Broken("%s: %s" % (label, b.what), b.detail)
                            part.count("rebuild_evaluations_intermediate")
                        for w in hist.witnesses:
                            if w[2] is None:
                                w[2] = monitors.digest(w[1])
                                part.count("multi_graft_witnesses")
                            elif monitors.digest(w[1]) != w[2]:
                                raise Broken("%s changed when another tree was edited (shared state after a graft)" % w[0])
                            else:
                                monitors.rebuild_equal(w[1], by_idx, tds, stats=st) if w[0].startswith("second") else None
                        hist.witnesses = hist.witnesses[-4:]
                        if monitors.digest(old) != before:
                            raise Broken("editing the product of %s changed the source tree (shared state)" % d["op"])
                        frozen.append((old, before, d["op"]))
                        frozen = frozen[-3:]
                        for ft, fd, fop in frozen:
                            if monitors.digest(ft) != fd:
                                raise Broken("a later edit changed an earlier tree through shared state (source of %s)" % fop)
                        part.count("alias_evaluations", 1 + len(frozen))
                    if "serial" in mons:
                        keep = []
                        for sh in shadows:
                            if d["op"] == "smc" and d.get("where") == "new" and not hist._dense(sh[0]):
                                # create_root_node's naming precondition (clone names 0..K-1) holds for the main tree
                                # (History.choose checks it) but not for this copy whose grafts were relabelled
                                # differently: retire the copy rather than call the code outside its contract
                                part.count("serial_shadows_retired_non_dense_names")
                                continue
                            strict = sh[3] and d["op"] != "relabel" and d.get("inplace") != "relabel"
                            sh[3] = strict
                            sh[0] = hist.apply(sh[0], d if strict else translate(d, old, sh[0]))
                            dev = trees_equivalent(new, sh[0], tds, strict_names=strict)
                            part.count("serial_followup_evaluations")
                            part.maxi("max_serial_dev", dev)
                            monitors.tree_wellformed(sh[0])
                            sh[2] -= 1
                            if sh[2] > 0:
                                keep.append(sh)
                        shadows = keep
                        if rng.random() < 0.25 and len(shadows) < 2:
                            how = str(rng.choice(["dict", "pickle", "gzip"]))
                            r = restore(new, how, tmpdir)
                            dev = trees_equivalent(new, r, tds)
                            part.count("serial_roundtrips")
                            part.count("serial_" + how)
                            holes = len(set(range(max(new._graph.node_indices()) + 1)) - set(new._graph.node_indices()))
                            if holes:
                                part.count("serial_roundtrips_with_index_gaps")
                            if len(new.nodes) == 0 and len(new.outliers) > 0:
                                part.count("serial_roundtrips_outlier_only")
                            monitors.tree_wellformed(r)
                            shadows.append([r, how, 12, True])
                            # restored trees are values of their own: restoring other trees later (or editing those)
                            # must not change one that was restored earlier and left alone
                            for po, pr in parked:
                                trees_equivalent(po, pr, tds)
                                part.count("serial_parked_rechecks")
                            parked.append((new, restore(new, how, tmpdir)))
                            parked = parked[-3:]
                            # the dictionary form is a value: editing a tree restored from it (as the subtree sampler
                            # edits the tree it is handed) or the original must not change it
                            r2, d2 = restore(new, "dict", tmpdir, keep_dict=True)
                            fp = dict_fingerprint(d2)
                            if edit_in_place(r2, rng):
                                part.count("serial_dict_alias_evaluations")
                                if dict_fingerprint(d2) != fp:
                                    raise Broken("editing a tree restored from a dictionary changed that dictionary "
                                                 "(shared containers between the dictionary form and the tree)")
                                r3 = Tree.from_dict(d2)
                                trees_equivalent(new, r3, tds)
                            d3 = new.to_dict()
                            fp3 = dict_fingerprint(d3)
                            probe = new.copy()
                            edit_in_place(probe, rng)
                            if dict_fingerprint(d3) != fp3:
                                raise Broken("the dictionary form changed after a copy of its tree was edited")
                            # and the tree the dictionary was taken from (the run loop records the current tree, the
                            # next subtree update then edits that very tree in place)
                            probe = new.copy()
                            d4 = probe.to_dict()
                            fp4 = dict_fingerprint(d4)
                            if edit_in_place(probe, rng):
                                part.count("serial_dict_source_edit_evaluations")
                                if dict_fingerprint(d4) != fp4:
                                    raise Broken("the dictionary form changed when the tree it was taken from was edited "
                                                 "afterwards (recorded entries share containers with the live tree)")
                                trees_equivalent(new, Tree.from_dict(d4), tds)
                    part.see("%s|%s" % (d["op"], gen.key_str(gen.tree_key(new))))
                if len(part.samples) < 2:
                    part.sample({"case": case, "first_ops": hist.log[:6], "final": gen.key_str(gen.tree_key(hist.tree))})
            except Broken as b:
                part.violation(b.what, {"case": case, "detail": b.detail, "step": hist.n_ops, "history": hist.log[-25:]})
            except Exception as e:
                et, where, msg = describe_exception(e)
                if where == "outside-repo":
                    import traceback
                    part.inconc("harness error in history runner: " + traceback.format_exc()[-800:])
                    continue
                part.violation("%s in %s during a tree edit (%s)" % (et, where, hist.log[-1]["op"] if hist.log else "?"),
                               {"case": case, "msg": msg, "step": hist.n_ops, "history": hist.log[-25:]})
    finally:
        import shutil

        shutil.rmtree(tmpdir, ignore_errors=True)
    return None, part
