"""Task worker: ``python -m vlib.worker <module> <func>``; one JSON task per stdin line, one JSON result per
stdout line.  The repository's own prints go to /dev/null so they cannot corrupt the protocol."""

import faulthandler
import importlib
import json
import os
import sys
import traceback


def main():
    module, func = sys.argv[1], sys.argv[2]
    proto = os.fdopen(os.dup(1), "w")
    devnull = open(os.devnull, "w")
    os.dup2(devnull.fileno(), 1)
    sys.stdout = devnull
    faulthandler.enable()
    from vlib import harness

    harness.setup_paths()
    try:
        fn = getattr(importlib.import_module(module), func)
    except Exception:
        err = traceback.format_exc()
        for line in sys.stdin:
            proto.write(json.dumps({"harness_error": err}) + "\n")
            proto.flush()
        return
    for line in sys.stdin:
        line = line.strip()
        if not line:
            continue
        task = json.loads(line)
        try:
            res = fn(task)
            value, partial = None, None
            if isinstance(res, tuple):
                value, partial = res
            elif isinstance(res, harness.Partial):
                partial = res
            else:
                value = res
            out = {"value": harness.jsonable(value), "partial": partial.to_dict() if partial is not None else None}
        except Exception:
            out = {"harness_error": traceback.format_exc()}
        proto.write(json.dumps(out) + "\n")
        proto.flush()


if __name__ == "__main__":
    main()
