"""Exact transition rows of the real sampler moves by exhaustive replay of their random draws (C01, C04).

A *configuration* (plain dict, JSON-able) fixes the data set (by seed), the move, the kernel and its wiring.  A task is
(configuration, index of the start forest); the worker returns the exact law of the move's output given that start
tree: {key string: probability}.  The parent aggregates the rows into the flow-conservation check
``sum_T pi(T) K(T,T') = pi(T')`` with ``pi ~ exp(log_p_one)`` taken from the code under test.
"""

import math

import numpy as np

from vlib import gen
from vlib.choice_rng import ChoiceModelError, PrunedPath, explore


def config_data(cfg):
    rng = np.random.default_rng([cfg["data_seed"], cfg["n"], cfg["D"], cfg["G"]])
    return gen.make_data(
        rng, cfg["n"], cfg["D"], cfg["G"], kind=cfg.get("kind", "moderate"),
        outlier_prior=cfg.get("outlier_prior", 0.0), tag="k%d_%d_%d_%d" % (cfg["data_seed"], cfg["n"], cfg["D"], cfg["G"]),
    )


def config_forests(cfg):
    return gen.all_forests(cfg["n"], outliers=cfg.get("outlier_prior", 0.0) > 0)


def make_tree_dist(cfg):
    from phyclone.tree import FSCRPDistribution, TreeJointDistribution

    return TreeJointDistribution(FSCRPDistribution(cfg["alpha"]))


def make_move(cfg, rng, tree_dist):
    """Return a callable tree -> tree implementing the configured move with the configured wiring."""
    move = cfg["move"]
    wiring = cfg.get("wiring", "library")
    outlier_prior = cfg.get("outlier_prior", 0.0)
    N = cfg.get("N", 2)
    thr = cfg.get("threshold", 0.5)
    proposal = cfg.get("proposal", "semi-adapted")
    if wiring == "run":
        import phyclone.run as prun

        kernel = prun.setup_kernel(outlier_prior, proposal, rng, tree_dist)
        samplers = prun.setup_samplers(kernel, N, outlier_prior, thr, rng, tree_dist)
        if move == "sweep":
            # one iteration of the run loop's own sweep (whole-tree or subtree update, data-point sweep, prune-regraft,
            # relabel, trace append), concentration update off
            from phyclone.tree import Tree
            from phyclone.utils import Timer

            def sweep(tree):
                import contextlib
                import io

                with contextlib.redirect_stdout(io.StringIO()):
                    res = prun._run_main_sampler(False, None, float("inf"), 1, 1, 1, 1000, samplers, ["s"], 1, Timer(), tree,
                                                 tree_dist, 0, rng, cfg.get("subtree_update_prob", 0.0))
                return Tree.from_dict(res["trace"][-1]["tree"])

            return sweep, kernel
        return {
            "pg": samplers.tree_sampler.sample_tree,
            "subtree": samplers.subtree_sampler.sample_tree,
            "dp": samplers.dp_sampler.sample_tree,
            "prg": samplers.prg_sampler.sample_tree,
        }[move], kernel
    from phyclone.mcmc import (DataPointSampler, ParticleGibbsSubtreeSampler, ParticleGibbsTreeSampler,
                               PruneRegraphSampler)
    from phyclone.smc.kernels import BootstrapKernel, FullyAdaptedKernel, SemiAdaptedKernel
    from phyclone.smc.utils import RootPermutationDistribution

    if move in ("pg", "subtree"):
        kcls = {"bootstrap": BootstrapKernel, "semi-adapted": SemiAdaptedKernel, "fully-adapted": FullyAdaptedKernel}[
            proposal]
        rho = cfg.get("rho", 0.1 if outlier_prior > 0 else 0.0)
        kernel = kcls(tree_dist, rng, outlier_proposal_prob=rho, perm_dist=RootPermutationDistribution())
        scls = ParticleGibbsTreeSampler if move == "pg" else ParticleGibbsSubtreeSampler
        return scls(kernel, rng, num_particles=N, resample_threshold=thr).sample_tree, kernel
    if move == "dp":
        return DataPointSampler(tree_dist, rng, outliers=outlier_prior > 0).sample_tree, None
    if move == "prg":
        return PruneRegraphSampler(tree_dist, rng).sample_tree, None
    raise ValueError(move)


def pi_vector(cfg, data=None, forests=None):
    """log_p_one of every enumerated forest as the code reports it (fresh builds)."""
    data = data if data is not None else config_data(cfg)
    forests = forests if forests is not None else config_forests(cfg)
    td = make_tree_dist(cfg)
    out = {}
    for f in forests:
        t, _ = gen.build_tree(f, data)
        out[gen.key_str(f.key())] = float(td.log_p_one(t))
    return out


def cold_array_caches():
    """Every replayed path must start from the same memoisation state (see row_task.once)."""
    import phyclone.tree.utils as _tu

    _tu.compute_log_S.cache_clear()
    _tu._convolve_two_children.cache_clear()


def row_task(task):
    """Worker entry: exact row of the transition kernel from one start forest."""
    from vlib.harness import Partial
    import phyclone.tree.utils as _tu
    from phyclone.utils.dev import clear_proposal_dist_caches

    cfg = task["cfg"]
    part = Partial()
    data = config_data(cfg)
    forests = config_forests(cfg)
    f = forests[task["start"]]
    td = make_tree_dist(cfg)
    all_idx = sorted(range(cfg["n"]))
    row = {}
    state = {"paths": 0, "pruned_mass": 0.0, "maxdev": 0.0}
    hooks = task.get("hooks")

    def once(rng):
        # every replayed path starts from the same memoisation state: an order-insensitive cache hit differs from a fresh
        # computation in the last bit, and at an exact boundary (equal weights, resampling threshold 1) that bit decides a
        # branch - replays of one prefix must not disagree about it
        clear_proposal_dist_caches()
        _tu.compute_log_S.cache_clear()
        _tu._convolve_two_children.cache_clear()
        tree, _ = gen.build_tree(f, data)
        if cfg.get("relabel"):
            tree.relabel_nodes()  # clone names in pre-order (0 = first top-level clone), as the run loop hands trees on
        if cfg.get("warm_alpha"):
            # call history: the same kernel, samplers and tree distribution first run a few updates under another
            # concentration value (seeded numpy generator), then the value is changed in place -- as the run loop's
            # concentration update does -- without clearing any cache, and the update under test follows
            td.prior.alpha = cfg["warm_alpha"]
            g = np.random.default_rng([cfg["data_seed"], 4711])
            move, kernel = make_move(cfg, g, td)
            t_w, _ = gen.build_tree(f, data)
            for _ in range(cfg.get("warm_steps", 3)):
                t_w = move(t_w)
            td.prior.alpha = cfg["alpha"]
            sampler = move.__self__
            sampler._rng = rng
            if kernel is not None:
                kernel._rng = rng
        else:
            move, _kernel = make_move(cfg, rng, td)
        out = move(tree)
        return out

    try:
        for res, prob, rng in explore(once, min_path_prob=cfg.get("min_path_prob", 0.0),
                                      max_paths=cfg.get("max_paths")):
            state["paths"] += 1
            state["maxdev"] = max(state["maxdev"], rng.max_norm_dev)
            if res is PrunedPath:
                state["pruned_mass"] += prob
                continue
            # C07-style boundary monitor on every outcome: same data set
            labels = res.labels
            if sorted(labels.keys()) != all_idx:
                part.violation("move %s returned a tree over different data" % cfg["move"],
                               {"cfg": cfg, "start": f.describe(), "labels": {str(k): str(v) for k, v in labels.items()}})
            k = gen.key_str(gen.tree_key(res))
            row[k] = row.get(k, 0.0) + prob
    except ChoiceModelError as e:
        part.inconc("choice model: %s" % e)
        return None, part
    except Exception as e:
        from vlib.harness import describe_exception

        et, where, msg = describe_exception(e)
        if where == "outside-repo":
            import traceback

            part.inconc("harness error while replaying a move: " + traceback.format_exc()[-800:])
            return None, part
        return {"exception": [et, where, msg], "start": gen.key_str(f.key())}, part
    part.count("paths", state["paths"])
    part.count("evaluations", state["paths"])
    part.maxi("max_multinomial_norm_dev", state["maxdev"])
    return {"start": gen.key_str(f.key()), "row": row, "paths": state["paths"], "pruned": state["pruned_mass"]}, part


def flow_residual(pi_log, rows):
    """max |pi K - pi| with pi normalised; also per-target signed residuals and the row-sum defect."""
    keys = sorted(pi_log.keys())
    m = max(pi_log.values())
    w = {k: math.exp(v - m) for k, v in pi_log.items()}
    z = sum(w.values())
    pi = {k: v / z for k, v in w.items()}
    out = {k: 0.0 for k in keys}
    row_def = 0.0
    unknown = set()
    for start, row in rows.items():
        s = 0.0
        for k, p in row.items():
            s += p
            if k not in out:
                unknown.add(k)
                continue
            out[k] += pi[start] * p
        row_def = max(row_def, abs(s - 1.0))
    resid = {k: out[k] - pi[k] for k in keys}
    worst = max(resid.items(), key=lambda kv: abs(kv[1]))
    return abs(worst[1]), worst[0], resid, row_def, sorted(unknown), pi
