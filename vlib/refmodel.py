"""Reference model written from the property statements; shares nothing with /repo except input arrays.

Everything here is deliberately naive (plain numpy / python loops, exact log-sum-exp, no flooring, no caching).
"""

import itertools
import math

import numpy as np
from scipy.special import gammaln, logsumexp

NEG = -np.inf


# ----------------------------------------------------------------------------- exact marginal (C02)
def log_conv_exact(a, b):
    """Exact truncated convolution in log space, per sample row: out[d,k] = LSE_j a[d,j] + b[d,k-j]."""
    D, G = a.shape
    out = np.full((D, G), NEG)
    for d in range(D):
        # matrix of a[j] + b[i] placed at j+i
        m = a[d][:, None] + b[d][None, :]
        for k in range(G):
            j = np.arange(0, k + 1)
            vals = m[j, k - j]
            out[d, k] = logsumexp(vals) if np.any(np.isfinite(vals)) else NEG
    return out


def log_conv_exact_fast(a, b):
    """Same as log_conv_exact but O(G^2) vectorised via anti-diagonals (for large grids)."""
    D, G = a.shape
    out = np.full((D, G), NEG)
    for d in range(D):
        x, y = a[d], b[d]
        for k in range(G):
            vals = x[: k + 1] + y[k::-1]
            mx = np.max(vals)
            if np.isfinite(mx):
                out[d, k] = mx + math.log(np.sum(np.exp(vals - mx)))
            else:
                out[d, k] = mx
    return out


def log_cumsum(a):
    return np.logaddexp.accumulate(a, axis=1)


def node_own(forest, i, values, log_prior):
    D, G = values[0].shape if values else (None, None)
    v = None
    for j in forest.blocks[i]:
        v = values[j].copy() if v is None else v + values[j]
    if v is None:
        raise ValueError("empty clone needs shape")
    return v + log_prior


def exact_node_vectors(forest, values, shape):
    """Exact R vectors per clone and for the virtual root: dict i->R, and root R (or None if no clones)."""
    D, G = shape
    log_prior = -math.log(G)
    conv = log_conv_exact_fast
    R = {}

    def rec(i):
        own = np.full((D, G), log_prior)
        for j in forest.blocks[i]:
            own = own + values[j]
        ch = forest.children(i)
        if not ch:
            R[i] = own
            return own
        d = None
        for c in ch:
            rc = rec(c)
            d = rc if d is None else conv(d, rc)
        R[i] = own + log_cumsum(d)
        return R[i]

    tops = forest.tops()
    if not tops:
        return R, None
    d = None
    for t in tops:
        rt = rec(t)
        d = rt if d is None else conv(d, rt)
    root = np.full((D, G), log_prior) + log_cumsum(d)
    return R, root


def brute_force_root(forest, values, shape):
    """Virtual-root vector by explicit enumeration of every index assignment (tiny instances only)."""
    D, G = shape
    log_prior = -math.log(G)
    K = forest.K
    own = []
    for i in range(K):
        o = np.full((D, G), log_prior)
        for j in forest.blocks[i]:
            o = o + values[j]
        own.append(o)
    tops = forest.tops()
    out = np.full((D, G), NEG)
    for d in range(D):
        acc = [[] for _ in range(G)]
        for assign in itertools.product(range(G), repeat=K):
            ok = True
            for i in range(K):
                if assign[i] < sum(assign[c] for c in forest.children(i)):
                    ok = False
                    break
            if not ok:
                continue
            s = sum(assign[t] for t in tops)
            if s > G - 1:
                continue
            val = sum(own[i][d, assign[i]] for i in range(K))
            for k in range(s, G):
                acc[k].append(val)
        for k in range(G):
            out[d, k] = log_prior + (logsumexp(acc[k]) if acc[k] else NEG)
    return out


class IntervalMarginal(object):
    """Lower / upper envelopes of what a correct implementation of the floored recursion may report.

    lo: exact value minus the largest mass double-precision underflow can lose in the max-normalised linear domain;
    hi: exact value plus the largest mass the 1e-100 floor can inject in any pairing order of the children (direct path)
    or plus/minus the FFT noise band (from 1000 grid points)."""

    FLOOR = 1e-100
    UNDER = 1e-300
    FFT_EPS = 1e-10

    def __init__(self, shape):
        self.D, self.G = shape
        self.log_prior = -math.log(self.G)
        self.fft = self.G >= 1000
        self.n_conv = 0

    def conv_children(self, los, his):
        m = len(los)
        if m == 1:
            return los[0], his[0]
        G = self.G
        lo = los[0]
        hi = his[0]
        for k in range(1, m):
            lo = log_conv_exact_fast(lo, los[k])
            hi = log_conv_exact_fast(hi, his[k])
        self.n_conv += m - 1
        peaks_hi = sum(np.max(h, axis=1, keepdims=True) for h in his)  # (D,1) log of product of peaks
        if self.fft:
            # every pairwise step: +- eps * peak(a) * peak(b); intermediate peaks <= G^(k) * product of peaks
            slack = math.log(self.FFT_EPS) + math.log(m) + (m - 1) * math.log(G) + peaks_hi
            hi = np.logaddexp(hi, slack)
            lo = _logsubexp_floor(lo, slack)
        else:
            inj = math.log(self.FLOOR) + math.log(m) + (m - 1) * math.log(G) + peaks_hi
            hi = np.logaddexp(hi, inj)
            und = math.log(self.UNDER) + math.log(m) + (m - 1) * math.log(G) + peaks_hi
            lo = _logsubexp_floor(lo, und)
        return lo, hi

    def run(self, forest, values):
        D, G = self.D, self.G
        LO, HI = {}, {}

        def rec(i):
            own = np.full((D, G), self.log_prior)
            for j in forest.blocks[i]:
                own = own + values[j]
            ch = forest.children(i)
            if not ch:
                LO[i], HI[i] = own, own
                return
            for c in ch:
                rec(c)
            lo, hi = self.conv_children([LO[c] for c in ch], [HI[c] for c in ch])
            LO[i] = own + log_cumsum(lo)
            HI[i] = own + log_cumsum(hi)

        tops = forest.tops()
        for t in tops:
            rec(t)
        if not tops:
            return LO, HI, None, None
        lo, hi = self.conv_children([LO[t] for t in tops], [HI[t] for t in tops])
        root_lo = self.log_prior + log_cumsum(lo)
        root_hi = self.log_prior + log_cumsum(hi)
        return LO, HI, root_lo, root_hi


def _logsubexp_floor(a, b):
    """log(max(exp(a) - exp(b), 0)) elementwise (b broadcastable)."""
    b = np.broadcast_to(b, a.shape)
    out = np.full(a.shape, NEG)
    ok = a > b
    with np.errstate(divide="ignore", invalid="ignore"):
        out[ok] = a[ok] + np.log1p(-np.exp(b[ok] - a[ok]))
    return out


# ----------------------------------------------------------------------------- FS-CRP density (C03)
def log_factorial(n):
    return float(gammaln(n + 1))


def root_penalty(R, c=1000.0):
    if R == 0:
        return 0.0
    return -(R - 1) * math.log(c) - math.log((1.0 - c ** (-R)) / (1.0 - 1.0 / c))


def outlier_marginal(value):
    """Marginal-form likelihood of the data point alone in a single-clone tree."""
    D, G = value.shape
    lp = -math.log(G)
    r_clone = value + lp
    root = lp + log_cumsum(r_clone)
    return float(np.sum(logsumexp(root, axis=1)))


def fscrp_log_densities(forest, values, shape, alpha, outlier_terms=None, root=None):
    """(log_p marginal form, log_p_one fixed-root form) from the C03 statement.

    outlier_terms: dict idx -> (log p * size, log(1-p) * size) or None when outlier modelling is off for that point.
    root: virtual-root vector to use for the data term (default: exact reference marginal)."""
    K = forest.K
    crp = K * math.log(alpha) + sum(log_factorial(len(b) - 1) for b in forest.blocks)
    mult = sum(log_factorial(len(forest.children(i))) for i in range(K)) + log_factorial(len(forest.tops()))
    topo_marg = -(K - 1) * math.log(K + 1)
    topo_one = -sum((forest.subtree_size(t) - 1) * math.log(forest.subtree_size(t)) for t in forest.tops())
    topo_one += root_penalty(len(forest.tops()))
    outp = 0.0
    if outlier_terms:
        for i in forest.outliers:
            if outlier_terms.get(i) is not None:
                outp += outlier_terms[i][0]
        for b in forest.blocks:
            for i in b:
                if outlier_terms.get(i) is not None:
                    outp += outlier_terms[i][1]
    om = sum(outlier_marginal(values[i]) for i in forest.outliers)
    if K > 0:
        if root is None:
            _, root = exact_node_vectors(forest, values, shape)
        data_marg = float(np.sum(logsumexp(root, axis=1)))
        data_one = float(np.sum(root[:, -1]))
    else:
        data_marg = data_one = 0.0
    log_p = crp + topo_marg - mult + outp + data_marg + om
    log_p_one = crp + topo_one - mult + outp + data_one + om
    return log_p, log_p_one


# ----------------------------------------------------------------------------- linear extensions (C09)
def compatible_orders(forest):
    """All data orders in which every data point of a clone comes after all data points of its descendants;
    outliers anywhere.  Brute force over permutations (<= 7 points)."""
    idxs = forest.data_idxs()
    owner = {}
    for i, b in enumerate(forest.blocks):
        for j in b:
            owner[j] = i
    desc_pts = {}
    for i in range(forest.K):
        cl = forest.clade(i)
        desc_pts[i] = cl - set(forest.blocks[i])
    res = []
    for perm in itertools.permutations(idxs):
        pos = {x: k for k, x in enumerate(perm)}
        ok = True
        for x in perm:
            if x in owner:
                for y in desc_pts[owner[x]]:
                    if pos[y] > pos[x]:
                        ok = False
                        break
            if not ok:
                break
        if ok:
            res.append(tuple(perm))
    return res


def count_orders(forest):
    """Independent counting recursion: log of the number of compatible orders."""

    def rec(i):
        """(log count, size) of the sub-order of the subtree under clone i."""
        sizes = []
        lc = 0.0
        for c in forest.children(i):
            l, s = rec(c)
            lc += l
            sizes.append(s)
        tot = sum(sizes)
        lc += log_factorial(tot) - sum(log_factorial(s) for s in sizes)
        own = len(forest.blocks[i])
        lc += log_factorial(own)
        return lc, tot + own

    sizes = []
    lc = 0.0
    for t in forest.tops():
        l, s = rec(t)
        lc += l
        sizes.append(s)
    tot = sum(sizes)
    lc += log_factorial(tot) - sum(log_factorial(s) for s in sizes)
    n_out = len(forest.outliers)
    # outliers anywhere: choose their positions and their mutual order
    lc += log_factorial(tot + n_out) - log_factorial(tot)
    return lc


def is_compatible_order(forest, order):
    pos = {x: k for k, x in enumerate(order)}
    if sorted(order) != forest.data_idxs():
        return False
    for i in range(forest.K):
        desc = forest.clade(i) - set(forest.blocks[i])
        for x in forest.blocks[i]:
            for y in desc:
                if pos[y] > pos[x]:
                    return False
    return True


class OrderChecker(object):
    """is_compatible_order for big forests: children lists and a post-order are computed once, each order is then
    checked in O(n) (a clone's earliest own point must come after the latest point of its strict descendants)."""

    def __init__(self, forest):
        self.forest = forest
        self.idxs = forest.data_idxs()
        self.kids = [[] for _ in range(forest.K)]
        for j, p in enumerate(forest.parent):
            if p is not None:
                self.kids[p].append(j)
        self.post = []
        stack = [(t, False) for t in forest.tops()]
        while stack:
            i, done = stack.pop()
            if done:
                self.post.append(i)
            else:
                stack.append((i, True))
                stack.extend((c, False) for c in self.kids[i])

    def ok(self, order):
        if sorted(order) != self.idxs:
            return False
        pos = {x: k for k, x in enumerate(order)}
        latest = {}
        for i in self.post:
            sub = max([latest[c] for c in self.kids[i]] + [-1])
            own = [pos[x] for x in self.forest.blocks[i]]
            if own and min(own) < sub:
                return False
            latest[i] = max(own + [sub])
        return True

    def symmetric_pairs(self, limit=60000):
        """Pairs of data points exchanged by a symmetry of the forest (first points of sibling clones whose subtrees
        have the same shape and block sizes): under the uniform law each of the two relative orders has probability
        exactly one half."""
        f = self.forest
        canon = {}
        for i in self.post:
            canon[i] = (len(f.blocks[i]), tuple(sorted(canon[c] for c in self.kids[i])))
        pairs = []
        groups = [f.tops()] + self.kids
        for g in groups:
            by = {}
            for c in g:
                if f.blocks[c]:
                    by.setdefault(canon[c], []).append(c)
            for cls in by.values():
                for a in range(len(cls)):
                    for b in range(a + 1, len(cls)):
                        pairs.append((min(f.blocks[cls[a]]), min(f.blocks[cls[b]])))
                        if len(pairs) >= limit:
                            return pairs
        return pairs


# ----------------------------------------------------------------------------- max-product CCF assignment (C10)
def maxprod_value_bruteforce(forest, own_loglik, G):
    """Max over feasible index assignments (clone >= sum children, tops sum <= G-1) of the summed per-clone
    log-likelihood, per sample.  own_loglik[i] has shape (D,G).  Returns array (D,)."""
    K = forest.K
    D = own_loglik[0].shape[0]
    best = np.full(D, NEG)
    tops = forest.tops()
    for assign in itertools.product(range(G), repeat=K):
        ok = True
        for i in range(K):
            if assign[i] < sum(assign[c] for c in forest.children(i)):
                ok = False
                break
        if not ok or sum(assign[t] for t in tops) > G - 1:
            continue
        for d in range(D):
            v = sum(own_loglik[i][d, assign[i]] for i in range(K))
            if v > best[d]:
                best[d] = v
    return best


def maxprod_value_recursive(forest, own_loglik, G):
    """Independent max-plus recursion: best[d] = max over feasible assignments."""
    D = own_loglik[0].shape[0]

    def maxconv(a, b):
        out = np.full(G, NEG)
        for k in range(G):
            out[k] = np.max(a[: k + 1] + b[k::-1])
        return out

    def rec(i, d):
        """M[k] = best value of the subtree of i with clone i at index exactly k."""
        ch = forest.children(i)
        if not ch:
            return own_loglik[i][d].copy()
        acc = None
        for c in ch:
            mc = rec(c, d)
            acc = mc if acc is None else maxconv(acc, mc)
        run = np.maximum.accumulate(acc)  # children sum <= k
        return own_loglik[i][d] + run

    best = np.zeros(D)
    for d in range(D):
        acc = None
        for t in forest.tops():
            mt = rec(t, d)
            acc = mt if acc is None else maxconv(acc, mt)
        best[d] = np.max(acc) if acc is not None else 0.0
    return best


# ----------------------------------------------------------------------------- PyClone emission (C05)
def pyclone_log_emission(ref, alt, major, minor, normal, tumour_content, error_rate, ccf, density, precision):
    """log of the PyClone mixture over mutational genotypes at one CCF value, from the statement:
    genotypes = mutation on x of the (major+minor) tumour copies for x = 1..major (mutation before the copy-number
    change), plus the 'mutation after the change' genotype (1 copy, reference population already has the tumour copy
    number) when it is not among them; uniform prior over genotypes."""
    from scipy.stats import betabinom, binom

    total = major + minor
    d = ref + alt
    eps = error_rate
    genos = []  # (cn_normal, cn_ref, cn_var, mu_normal, mu_ref, mu_var)
    for x in range(1, major + 1):
        genos.append((normal, normal, total, eps, eps, min(1 - eps, x / total)))
    after = (normal, total, total)
    if after not in [(g[0], g[1], g[2]) for g in genos]:
        genos.append((normal, total, total, eps, eps, min(1 - eps, 1 / total)))
    t = tumour_content
    w = (1 - t, t * (1 - ccf), t * ccf)
    lls = []
    for (cn_n, cn_r, cn_v, mu_n, mu_r, mu_v) in genos:
        num = w[0] * cn_n * mu_n + w[1] * cn_r * mu_r + w[2] * cn_v * mu_v
        den = w[0] * cn_n + w[1] * cn_r + w[2] * cn_v
        vaf = num / den
        if density == "binomial":
            ll = binom.logpmf(alt, d, vaf)
        else:
            ll = betabinom.logpmf(alt, d, vaf * precision, precision - vaf * precision)
        lls.append(ll - math.log(len(genos)))
    return float(logsumexp(lls))
