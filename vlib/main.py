"""Entry point behind ./check: ``./check <ID> [--tier quick|thorough] [--replay file] [--seed N]``."""

import argparse
import importlib
import json
import os
import sys
import traceback

from vlib import harness

LEVELS = {"C20": "fault_enumeration"}


def main(argv=None):
    ap = argparse.ArgumentParser()
    ap.add_argument("prop")
    ap.add_argument("--tier", default=os.environ.get("VERIF_TIER", "quick"), choices=["quick", "thorough"])
    ap.add_argument("--seed", type=int, default=int(os.environ.get("VERIF_SEED", "0") or 0))
    ap.add_argument("--replay", default=None)
    args = ap.parse_args(argv)
    prop = args.prop.upper()
    harness.ensure_deps()
    harness.setup_paths()
    replay = None
    if args.replay:
        # a replay file records the tier and seed of the run that found the violation: every workload is a
        # deterministic function of (tier, seed), so re-running with them reproduces the witness
        with open(args.replay) as fh:
            replay = json.load(fh)
        args.tier = replay.get("tier", args.tier)
        args.seed = int(replay.get("seed", args.seed))
        print("replaying %s: tier=%s seed=%d (%d violations recorded, first: %s)"
              % (prop, args.tier, args.seed, replay.get("n_violations", 0),
                 (replay.get("violations") or [{}])[0].get("what")))
    ctx = harness.Context(prop, args.tier, args.seed, LEVELS.get(prop, "exploration"))
    ctx.replay = replay
    try:
        mod = importlib.import_module("checks.%s" % prop.lower())
        mod.run(ctx)
    except harness.Inconclusive as e:
        ctx.inconc(str(e))
    except Exception:
        ctx.inconc("check driver crashed: " + traceback.format_exc()[-1500:])
    code = harness.finish(ctx)
    sys.stdout.flush()
    return code


if __name__ == "__main__":
    sys.exit(main())
