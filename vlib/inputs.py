"""Generated input tables (PyClone-style TSV) and cluster files for the run-level checks."""

import os

import numpy as np


def make_table(rng, n_mut, n_samples, depth=(20, 400), tumour_content=True, error_rate=False, string_ids=True,
               cn_variety=True, junk_from=None):
    """Rows (list of dict) of a valid input table: every mutation once per sample, major_cn >= max(minor_cn, 1)."""
    rows = []
    samples = ["S%s" % chr(65 + s) for s in range(n_samples)]
    if n_mut % 2 == 0 and n_samples >= 2:
        # sample names with embedded numbers of different lengths: natural and plain string order differ
        samples = ["T%d" % v for v in [5, 12, 101, 7, 33, 2, 64, 9, 10, 11, 1, 3][:n_samples]]
    tc = {s: float(np.round(rng.uniform(0.3, 1.0), 3)) for s in samples}
    # a latent clonal structure so that the data are informative
    n_clones = int(rng.integers(1, max(2, min(4, n_mut)) + 1))
    ccf = rng.dirichlet(np.ones(n_clones), size=n_samples)  # crude: per-sample prevalences
    for m in range(n_mut):
        mid = ("mut_%s%d" % ("abcdefgh"[m % 8], m)) if string_ids else m
        if string_ids and n_mut >= 3 and m in (1, 2):
            # identifiers are free text: a name that spells a missing-value token, characters that mean something to parsers
            mid = ["NA", "chr2:1200#2"][m - 1]
        clone = int(rng.integers(0, n_clones))
        for si, s in enumerate(samples):
            if cn_variety:
                major = int(rng.integers(1, 4))
                minor = int(rng.integers(0, major + 1))
            else:
                major, minor = 1, 1
            normal = 2
            if junk_from is not None and m >= junk_from:
                d = int(rng.integers(2, 9))  # barely informative rows: plausible outliers
            else:
                d = int(rng.integers(depth[0], depth[1] + 1))
            f = float(np.clip(ccf[si, : clone + 1].sum(), 0, 1))
            t = tc[s] if tumour_content else 1.0
            vaf = t * f * 1.0 / (t * (major + minor) + (1 - t) * normal)
            alt = int(rng.binomial(d, min(max(vaf, 0.001), 0.999)))
            row = {"mutation_id": mid, "sample_id": s, "ref_counts": d - alt, "alt_counts": alt, "major_cn": major,
                   "minor_cn": minor, "normal_cn": normal}
            if tumour_content:
                row["tumour_content"] = t
            if error_rate:
                row["error_rate"] = 0.001
            rows.append(row)
    return rows, samples


def write_table(rows, path, sep="\t", columns=None, newline="\n", final_newline=True):
    """columns: column order (default: the rows' own key order); newline: line terminator ("\r\n" for files that
    passed through Windows tools); final_newline: whether the last line is terminated."""
    cols = columns or list(rows[0].keys())
    lines = [sep.join(cols)] + [sep.join(str(r[c]) for c in cols) for r in rows]
    with open(path, "w", newline="") as fh:
        fh.write(newline.join(lines) + (newline if final_newline else ""))


def prob_index(cluster_id, n):
    """Which entry of a per-cluster outlier-probability list a cluster gets (ids are integers or 'C<integer>')."""
    return int(str(cluster_id).lstrip("C")) % n


def make_clusters(rng, rows, n_clusters, outlier_prob_col=None, prev_col="cellular_prevalence", textual_ids=False,
                  per_mutation=False, shuffle=False):
    """Cluster file rows (PyClone-VI style: integer cluster ids, one row per mutation and sample)."""
    muts = []
    for r in rows:
        if r["mutation_id"] not in muts:
            muts.append(r["mutation_id"])
    n_clusters = max(1, min(n_clusters, len(muts)))
    # integer cluster ids (as PyClone-VI emits) that sort differently as numbers and as strings
    ids = [2, 10, 33, 7, 100, 21, 5, 64][:n_clusters] if n_clusters <= 8 else list(range(n_clusters))
    if textual_ids:
        # the README does not restrict cluster ids to integers
        ids = ["C%d" % i for i in ids]
    assign = {m: ids[i] for i, m in enumerate(muts[:n_clusters])}
    for m in muts[n_clusters:]:
        assign[m] = ids[int(rng.integers(0, n_clusters))]
    out = []
    for r in rows:
        row = {"mutation_id": r["mutation_id"], "sample_id": r["sample_id"], "cluster_id": assign[r["mutation_id"]]}
        if prev_col is not None:
            # PyClone-VI calls the column cellular_prevalence, PhyClone's README calls it ccf
            row[prev_col] = 0.5
        if outlier_prob_col is not None:
            row["outlier_prob"] = outlier_prob_col[prob_index(assign[r["mutation_id"]], len(outlier_prob_col))]
        out.append(row)
    if per_mutation:
        # the minimal cluster file (as the shipped examples): one row per mutation, no sample / prevalence columns
        seen, slim = set(), []
        for row in out:
            if row["mutation_id"] not in seen:
                seen.add(row["mutation_id"])
                slim.append({k: v for k, v in row.items() if k not in ("sample_id", prev_col)})
        out = slim
    if shuffle:
        out = [out[int(i)] for i in rng.permutation(len(out))]
    return out, assign


def branching_table(rng, n_mut, n_samples=2, depth=3000):
    """Input table with a trunk and several sibling subclones of different prevalence per sample (major=minor=1,
    normal 2, no optional columns): posterior trees have many sibling clones, so the same pairs of likelihood vectors get
    convolved in either order -- the situation in which order-insensitive caches return bitwise different values."""
    samples = ["S%d" % (i + 1) for i in range(n_samples)]
    fr = [[0.45] * n_samples]
    k = n_mut - 1
    for i in range(k):
        w = rng.dirichlet(np.ones(k), size=n_samples)[:, i] * 0.8
        fr.append([float(np.round(0.45 * x + 0.02, 3)) for x in w])
    rows = []
    for i, f in enumerate(fr):
        for s, fs in zip(samples, f):
            alt = int(round(depth * fs))
            rows.append({"mutation_id": "m%d" % i, "sample_id": s, "ref_counts": depth - alt, "alt_counts": alt,
                         "major_cn": 1, "minor_cn": 1, "normal_cn": 2})
    return rows, samples


def heavy_table(rng, n_samples=10, n_big=3, big_size=(100, 140), n_weak=4, depth=(800, 1500)):
    """A large valid input: a few big clusters of deeply sequenced mutations over many samples plus a few single
    shallow mutations in clusters of their own.  Joint log-densities of trees over it are of magnitude 1e4-1e5.
    Returns (rows, cluster rows)."""
    samples = ["S%02d" % s for s in range(n_samples)]
    rows, crows = [], []
    mid = 0
    prev = np.sort(rng.uniform(0.05, 1.0, size=(n_big, n_samples)), axis=0)[::-1]
    for c in range(n_big + n_weak):
        big = c < n_big
        size = int(rng.integers(big_size[0], big_size[1] + 1)) if big else 1
        for _ in range(size):
            for si, s in enumerate(samples):
                d = int(rng.integers(depth[0], depth[1] + 1)) if big else int(rng.integers(2, 9))
                f = float(prev[c, si]) if big else float(rng.uniform(0.0, 1.0))
                alt = int(rng.binomial(d, min(max(f / 2.0, 0.001), 0.999)))
                rows.append({"mutation_id": "hm%04d" % mid, "sample_id": s, "ref_counts": d - alt, "alt_counts": alt,
                             "major_cn": 1, "minor_cn": 1, "normal_cn": 2})
                crows.append({"mutation_id": "hm%04d" % mid, "sample_id": s, "cluster_id": c, "cellular_prevalence": f})
            mid += 1
    return rows, crows
