"""Generated edit histories in the grammar the samplers compose (C06, C07, C15).

A ``History`` owns one *main* tree and optional *shadow* trees (restored copies) to which exactly the same edit
descriptors are applied; descriptors name clones and data points, so they replay on any tree with the same labels.

Grammar (what the code base itself does, nothing else):
  smc        parent.copy() [or dict hop] ; add point to a top-level clone | create_root_node(children subset, [dp]) |
             add to outliers            (kernels; create_root_node only on trees named 0..K-1, as every sampler ensures)
  dp_move    tree.copy(); remove_data_point_from_node; add_data_point_to_node | add_data_point_to_outliers
             (never empties a clone)                                                   (DataPointSampler)
  prg        pruned=tree.copy(); sub=pruned.get_subtree(x); pruned.remove_subtree(sub); new=pruned.copy();
             new.add_subtree(sub,parent); new.update()                                  (PruneRegraphSampler)
  subtree    sub=tree.get_subtree(parent_of(x)); tree.remove_subtree(sub); outliers -> sub; rebuild a forest over
             sub's data by smc steps; new=tree.copy(); new.add_subtree(S,parent); outliers back; update()
                                                                                        (ParticleGibbsSubtreeSampler)
  relabel    tree.relabel_nodes()                                                        (run loop)
  copy / dict / pickle   tree.copy(), Tree.from_dict(tree.to_dict()), pickle round trip  (particles, trace)
"""

import pickle

import numpy as np


class History(object):
    def __init__(self, rng, data, allow_outliers=True, dict_hop_prob=0.3, initial_forest=None):
        from phyclone.tree import Tree

        self.rng = rng
        self.data = list(data)
        self.by_idx = {dp.idx: dp for dp in data}
        self.grid = data[0].shape
        self.tree = Tree(self.grid)
        self.unassigned = [dp.idx for dp in data]
        if initial_forest is not None:
            # start from a given (large) tree instead of the empty one: built bottom-up, clones named 0..K-1
            from vlib import gen

            self.tree, _names = gen.build_tree(initial_forest, self.by_idx)
            held = set(initial_forest.data_idxs())
            self.unassigned = [dp.idx for dp in data if dp.idx not in held]
        self.allow_outliers = allow_outliers
        self.dict_hop_prob = dict_hop_prob
        self.log = []
        self.n_ops = 0
        self.edit_counts = {}  # clone-independent count of in-place add/remove, for the drift allowance
        self.witnesses = []  # [label, tree, digest] trees that later edits of *other* trees must not change
        self.inter = []

    # ------------------------------------------------------------------ helpers
    def _dense(self, tree):
        nodes = tree.nodes
        return sorted(map(repr, nodes)) == sorted(map(repr, range(len(nodes))))

    def _pick(self, seq):
        return seq[int(self.rng.integers(0, len(seq)))]

    def assigned(self, tree=None):
        tree = self.tree if tree is None else tree
        return sorted(tree.labels.keys())

    # ------------------------------------------------------------------ choose an op descriptor on the main tree
    def choose(self):
        t = self.tree
        nodes = list(t.nodes)
        ops = []
        if self.unassigned:
            ops += ["smc"] * 6
        labels = t.labels
        if labels:
            ops += ["dp_move"] * 3
        if len(nodes) >= 2:
            ops += ["prg"] * 3
        if len(nodes) >= 1:
            ops += ["subtree"] * 2
        ops += ["relabel", "copy", "dict", "pickle"]
        if not self.unassigned and self.rng.random() < 0.15 and labels:
            ops += ["drop"] * 3
        kind = self._pick(ops)
        d = {"op": kind}
        if kind == "smc":
            if not self._dense(t):
                return {"op": "relabel"}
            d["dp"] = self._pick(self.unassigned)
            roots = [int(r) if not isinstance(r, str) else r for r in t.roots]
            choices = ["new"] * 2 + (["existing"] * 2 if roots else []) + (["outlier"] if self.allow_outliers else [])
            d["where"] = self._pick(choices)
            if d["where"] == "existing":
                d["node"] = self._pick(roots)
            elif d["where"] == "new":
                k = int(self.rng.integers(0, len(roots) + 1))
                perm = list(roots)
                self.rng.shuffle(perm)
                d["children"] = perm[:k]
                d["two_step"] = bool(self.rng.random() < 0.4)
            d["hop"] = bool(self.rng.random() < self.dict_hop_prob)
        elif kind == "dp_move":
            out_name = t.outlier_node_name
            movable = [i for i, n in labels.items() if n == out_name or t.get_data_len(n) > 1]
            if not movable:
                return {"op": "copy"}
            d["dp"] = self._pick(sorted(movable))
            d["src"] = labels[d["dp"]]
            targets = [n for n in nodes if n != d["src"]]
            if self.allow_outliers and d["src"] != out_name:
                targets.append(out_name)
            if not targets:
                return {"op": "copy"}
            d["dst"] = self._pick(targets)
        elif kind == "prg":
            d["node"] = self._pick(nodes)
            desc = set(t.get_descendants(d["node"])) | {d["node"]}
            remaining = [n for n in nodes if n not in desc]
            if not remaining:
                return {"op": "copy"}
            d["parent"] = self._pick(remaining + [None])
            if self.rng.random() < 0.5:
                d["witness_parent"] = self._pick(remaining + [None])
                d["inplace"] = "relabel" if self.rng.random() < 0.5 else None
        elif kind == "subtree":
            child = self._pick(nodes)
            d["root"] = t.get_parent(child)
            # the resampled block is rebuilt by smc steps in this (random) order with these placements
            d["seed"] = int(self.rng.integers(0, 2 ** 31))
        elif kind == "drop":
            # not a sampler edit: un-assign a point through the public remove API so that later smc steps can re-add it
            # (used only to keep long histories going; a clone is never emptied)
            out_name = t.outlier_node_name
            movable = [i for i, n in labels.items() if n == out_name or t.get_data_len(n) > 1]
            if not movable:
                return {"op": "copy"}
            d["dp"] = self._pick(sorted(movable))
            d["src"] = labels[d["dp"]]
        return d

    # ------------------------------------------------------------------ apply a descriptor to a tree -> new tree
    def apply(self, t, d, inter=None):
        """Apply descriptor d to tree t -> new tree.  ``inter`` (list) receives (label, tree, data idx the tree must
        hold or None) for the intermediate states the samplers themselves pass through (after pruning, after grafting
        and before the full update) and (label, tree, digest-before) witnesses of multi-graft aliasing."""
        from phyclone.tree import Tree

        kind = d["op"]
        inter = inter if inter is not None else []
        if kind == "smc":
            dp = self.by_idx[d["dp"]]
            new = Tree.from_dict(t.to_dict()) if d.get("hop") else t.copy()
            if d["where"] == "existing":
                new.add_data_point_to_node(dp, d["node"])
            elif d["where"] == "new" and d.get("two_step"):
                # the two-step creation the bootstrap proposal and the conditional sampler's retained path use: an empty
                # clone first, its data point afterwards; the state in between is a tree like any other
                node = new.create_root_node(children=list(d["children"]))
                inter.append(("clone created without data (first half of the two-step creation)", new.copy()))
                new.add_data_point_to_node(dp, node)
            elif d["where"] == "new":
                new.create_root_node(children=list(d["children"]), data=[dp])
            else:
                new.add_data_point_to_outliers(dp)
            return new
        if kind == "dp_move":
            dp = self.by_idx[d["dp"]]
            new = t.copy()
            new.remove_data_point_from_node(dp, d["src"])
            if d["dst"] == new.outlier_node_name:
                new.add_data_point_to_outliers(dp)
            else:
                new.add_data_point_to_node(dp, d["dst"])
            return new
        if kind == "drop":
            dp = self.by_idx[d["dp"]]
            new = t.copy()
            if d["src"] == new.outlier_node_name:
                new.remove_data_point_from_outliers(dp)
            else:
                new.remove_data_point_from_node(dp, d["src"])
            return new
        if kind == "prg":
            pruned = t.copy()
            sub = pruned.get_subtree(d["node"])
            pruned.remove_subtree(sub)
            inter.append(("pruned tree after remove_subtree", pruned.copy()))
            inter.append(("extracted subtree", sub.copy()))
            new = pruned.copy()
            new.add_subtree(sub, parent=d["parent"])
            inter.append(("grafted tree before the full update", new.copy()))
            if d.get("witness_parent", "absent") != "absent":
                # the sampler grafts the same subtree object into every candidate; a second candidate is kept as a
                # witness: nothing done to the chosen candidate afterwards may change it
                other = pruned.copy()
                other.add_subtree(sub, parent=d["witness_parent"])
                other.update()
                self.witnesses.append(["second prune-regraft candidate grafted from the same subtree", other, None])
                self.witnesses.append(["subtree object that was grafted", sub, None])
            new.update()
            if d.get("inplace") == "relabel":
                new.relabel_nodes()  # the run loop relabels the returned candidate in place
            return new
        if kind == "subtree":
            work = t.copy()  # the sampler mutates its input; the history keeps the old tree for the alias guard
            r = d["root"]
            parent = work.get_parent(r)
            sub = work.get_subtree(r)
            work.remove_subtree(sub)
            inter.append(("pruned tree after remove_subtree", work.copy()))
            for dp in work.outliers:
                work.remove_data_point_from_outliers(dp)
                sub.add_data_point_to_outliers(dp)
            # "resample" the block: a fresh forest over its data by smc steps (what the conditional SMC particles are)
            g = np.random.default_rng(d["seed"])
            pts = [dp for dp in sub.data]
            g.shuffle(pts)
            S = Tree(self.grid)
            for dp in pts:
                S = Tree.from_dict(S.to_dict())
                roots = list(S.roots)
                u = g.random()
                if u < 0.15 and self.allow_outliers:
                    S.add_data_point_to_outliers(dp)
                elif u < 0.5 and roots:
                    S.add_data_point_to_node(dp, roots[int(g.integers(0, len(roots)))])
                else:
                    k = int(g.integers(0, len(roots) + 1))
                    ch = list(roots)
                    g.shuffle(ch)
                    S.create_root_node(children=ch[:k], data=[dp])
            new = work.copy()
            new.add_subtree(S, parent=parent)
            for dp in S.outliers:
                new.add_data_point_to_outliers(dp)
            inter.append(("re-attached block before the full update", new.copy()))
            new.update()
            return new
        if kind == "relabel":
            new = t.copy()
            new.relabel_nodes()
            return new
        if kind == "copy":
            return t.copy()
        if kind == "dict":
            return Tree.from_dict(t.to_dict())
        if kind == "pickle":
            return Tree.from_dict(pickle.loads(pickle.dumps(t.to_dict(), protocol=pickle.HIGHEST_PROTOCOL)))
        raise ValueError(kind)

    def step(self):
        d = self.choose()
        self.log.append(_plain(d))
        self.n_ops += 1
        self.inter = []
        new = self.apply(self.tree, d, self.inter)
        if d["op"] == "smc":
            self.unassigned.remove(d["dp"])
        elif d["op"] == "drop":
            self.unassigned.append(d["dp"])
        old = self.tree
        self.tree = new
        return d, old, new


def _plain(d):
    out = {}
    for k, v in d.items():
        if isinstance(v, (np.integer,)):
            v = int(v)
        elif isinstance(v, list):
            v = [int(x) if isinstance(x, np.integer) else x for x in v]
        out[k] = v
    return out
