"""Child interpreter for the C18 hash-seed differential: runs one seeded chain on synthetic string-named data and
prints a fingerprint of the trace as JSON.  Started with different PYTHONHASHSEED values by checks/c18.py."""

import contextlib
import io
import json
import sys


def main():
    from vlib import harness

    harness.setup_paths()
    import numpy as np

    from vlib import gen
    import phyclone.run as prun
    from phyclone.tree import Tree

    cfg = json.loads(sys.argv[1])
    rng = np.random.default_rng([cfg["data_seed"], 18])
    data = gen.make_data(rng, cfg["n"], cfg["D"], 11, kind=cfg["kind"], outlier_prior=cfg["outlier_prob"],
                         tag="mut_%s" % "".join(rng.choice(list("abcdefgh"), 4)))
    g = np.random.default_rng(cfg["run_seed"])
    with contextlib.redirect_stdout(io.StringIO()):
        res = prun.run_phyclone_chain(1, True, 1.0, data, float("inf"), cfg["iters"], cfg["particles"], 1, 1,
                                      cfg["outlier_prob"], 1000, cfg["proposal"], 0.5, g,
                                      ["s%d" % i for i in range(cfg["D"])], 1, 0, cfg["subtree"])
    seq = []
    stats = {"max_outliers": 0, "entries_with_2_outliers_and_depth": 0}
    for e in res["trace"]:
        t = Tree.from_dict(e["tree"])
        nout = len(t.outliers)
        deep = any(t.get_parent(n) != t.root_node_name for n in t.nodes)
        stats["max_outliers"] = max(stats["max_outliers"], nout)
        if nout >= 2 and deep:
            stats["entries_with_2_outliers_and_depth"] += 1
        seq.append([int(e["iter"]), float(e["alpha"]).hex(), float(e["log_p_one"]).hex(), gen.key_str(gen.tree_key(t))])
    print(json.dumps({"fp": seq, "stats": stats, "hashseed": __import__("os").environ.get("PYTHONHASHSEED")}))


if __name__ == "__main__":
    main()
