"""Generators: data sets, abstract forests (enumeration and random), materialisation through the public Tree API.

Abstract forest (``AForest``): blocks[i] = sorted tuple of data indices of clone i, parent[i] = index of the parent
clone or None for a top-level clone, outliers = sorted tuple of data indices.  Canonical key = (frozenset of clades,
frozenset of outliers) -- the identity C03 states.
"""

import itertools
import math

import numpy as np


# ----------------------------------------------------------------------------- abstract forests
class AForest(object):
    __slots__ = ("blocks", "parent", "outliers")

    def __init__(self, blocks, parent, outliers=()):
        self.blocks = [tuple(sorted(b)) for b in blocks]
        self.parent = list(parent)
        self.outliers = tuple(sorted(outliers))

    @property
    def K(self):
        return len(self.blocks)

    def children(self, i):
        return [j for j, p in enumerate(self.parent) if p == i]

    def tops(self):
        return [j for j, p in enumerate(self.parent) if p is None]

    def clade(self, i):
        s = set(self.blocks[i])
        for c in self.children(i):
            s |= self.clade(c)
        return frozenset(s)

    def key(self):
        return (frozenset(self.clade(i) for i in range(self.K)), frozenset(self.outliers))

    def data_idxs(self):
        out = list(self.outliers)
        for b in self.blocks:
            out.extend(b)
        return sorted(out)

    def postorder(self, reverse_siblings=False):
        order = []

        def rec(i):
            ch = self.children(i)
            for c in (ch[::-1] if reverse_siblings else ch):
                rec(c)
            order.append(i)

        tops = self.tops()
        for t in (tops[::-1] if reverse_siblings else tops):
            rec(t)
        return order

    def subtree_size(self, i):
        return 1 + sum(self.subtree_size(c) for c in self.children(i))

    def describe(self):
        return {"blocks": [list(b) for b in self.blocks], "parent": self.parent, "outliers": list(self.outliers)}

    @staticmethod
    def from_desc(d):
        return AForest(d["blocks"], d["parent"], d.get("outliers", ()))


def key_str(key):
    clades, outs = key
    return "C[%s]O[%s]" % (
        "|".join(sorted(",".join(str(i) for i in sorted(c)) for c in clades)),
        ",".join(str(i) for i in sorted(outs)),
    )


def set_partitions(items):
    items = list(items)
    if not items:
        yield []
        return
    first, rest = items[0], items[1:]
    for part in set_partitions(rest):
        for i in range(len(part)):
            yield part[:i] + [[first] + part[i]] + part[i + 1:]
        yield [[first]] + part


def rooted_forests(k):
    """All parent maps on k labelled nodes without cycles ((k+1)^(k-1) of them)."""
    for parent in itertools.product([None] + list(range(k)), repeat=k):
        ok = True
        for i in range(k):
            seen = set()
            j = i
            while j is not None:
                if j in seen:
                    ok = False
                    break
                seen.add(j)
                j = parent[j]
            if not ok:
                break
        if ok:
            yield list(parent)


def all_forests(n, outliers=False, idxs=None):
    """Every abstract forest over data indices 0..n-1 (optionally with every outlier subset)."""
    idxs = list(range(n)) if idxs is None else list(idxs)
    out_sets = [()]
    if outliers:
        out_sets = []
        for r in range(len(idxs) + 1):
            out_sets.extend(itertools.combinations(idxs, r))
    seen = set()
    res = []
    for outs in out_sets:
        rest = [i for i in idxs if i not in outs]
        for part in set_partitions(rest):
            part = sorted(sorted(b) for b in part)
            for parent in rooted_forests(len(part)):
                f = AForest(part, parent, outs)
                k = f.key()
                if k not in seen:
                    seen.add(k)
                    res.append(f)
    return res


def random_forest(rng, n, max_children=8, p_outlier=0.0, shape=None, n_tops=None, min_clones=1):
    """Random abstract forest over n data points.  shape in {None,'chain','star','bushy'}.  min_clones: lower bound on
    the number of clones (for trees with more than 256 clones)."""
    idxs = list(range(n))
    outs = [i for i in idxs if rng.random() < p_outlier]
    rest = [i for i in idxs if i not in outs]
    if not rest:
        return AForest([], [], outs)
    K = int(rng.integers(min(min_clones, len(rest)), len(rest) + 1))
    rng.shuffle(rest)
    blocks = [[rest[i]] for i in range(K)]
    for x in rest[K:]:
        blocks[int(rng.integers(0, K))].append(x)
    parent = [None] * K
    nchild = [0] * K
    ntop = 1
    for i in range(1, K):
        if shape == "chain":
            parent[i] = i - 1
        elif shape == "star":
            parent[i] = 0 if nchild[0] < max_children else None
        else:
            want_top = (n_tops is not None and ntop < n_tops) or (n_tops is None and rng.random() < 0.25)
            cands = [j for j in range(i) if nchild[j] < max_children]
            if want_top or not cands:
                parent[i] = None
            elif shape == "bushy":
                parent[i] = cands[int(rng.integers(0, min(2, len(cands))))]
            else:
                parent[i] = cands[int(rng.integers(0, len(cands)))]
        if parent[i] is None:
            ntop += 1
        else:
            nchild[parent[i]] += 1
    return AForest(blocks, parent, outs)


# ----------------------------------------------------------------------------- data
def make_values(rng, n, D, G, kind="moderate"):
    """n arrays of shape (D, G) of per-grid-point log-likelihoods."""
    vals = []
    grid = np.linspace(0.0, 1.0, G)
    for _i in range(n):
        if kind == "flat":
            v = np.zeros((D, G))
        elif kind == "moderate":
            v = rng.normal(size=(D, G)) * 1.5
        elif kind == "smooth":
            v = np.empty((D, G))
            for d in range(D):
                c = rng.random()
                w = 0.15 + rng.random() * 0.6
                v[d] = -0.5 * ((grid - c) / w) ** 2 + rng.normal() * 0.3
        elif kind == "peaked":
            v = np.empty((D, G))
            for d in range(D):
                depth = int(10 ** rng.uniform(2, 5))
                ccf = rng.random()
                vaf_true = max(ccf / 2.0, 1e-3)
                alt = int(rng.binomial(depth, vaf_true))
                vaf = np.clip(grid / 2.0, 1e-3, 1 - 1e-3)
                v[d] = alt * np.log(vaf) + (depth - alt) * np.log1p(-vaf)
        elif kind == "binom":
            v = np.empty((D, G))
            for d in range(D):
                depth = int(rng.integers(20, 200))
                ccf = rng.random()
                alt = int(rng.binomial(depth, max(ccf / 2.0, 1e-3)))
                vaf = np.clip(grid / 2.0, 1e-3, 1 - 1e-3)
                v[d] = alt * np.log(vaf) + (depth - alt) * np.log1p(-vaf)
                v[d] -= v[d].max() - rng.normal()
        elif kind == "near_ties":
            # every data point has (almost) the same linear profile: moving CCF mass between sibling clones changes the total
            # by a few 1e-7 only - far above rounding, far below any sensible tolerance for calling two scores equal
            v = 3.0 * grid[None, :] * np.ones((D, 1)) + 1e-7 * rng.normal(size=(D, G)) * (1 + _i % 3)
        elif kind == "scales":
            # data points of very different weight in one data set: big deeply sequenced clusters (log-likelihoods of
            # magnitude 1e4-1e6, flat-ish or sharply peaked) next to barely informative ones (variation 1e-3..0.3)
            which = _i % 3 if _i < 3 else int(rng.integers(0, 3))
            if which == 0:
                v = -float(10 ** rng.uniform(4, 6)) + rng.normal(size=(D, G)) * 1.5
            elif which == 1:
                v = rng.normal(size=(D, G)) * float(10 ** rng.uniform(-3, -0.5))
            else:
                v = np.empty((D, G))
                for d in range(D):
                    c = rng.random()
                    w = 0.3 + rng.random() * 0.6
                    v[d] = (-0.5 * ((grid - c) / w) ** 2) * float(10 ** rng.uniform(0, 1.5)) - float(10 ** rng.uniform(2, 5))
        else:
            raise ValueError(kind)
        vals.append(np.ascontiguousarray(v, dtype=np.float64))
    return vals


_uid = [0]


def make_data(rng, n, D, G, kind="moderate", outlier_prior=0.0, sizes=None, tag=None):
    """List of phyclone DataPoint with names unique per generated data set (caches key on the name)."""
    from phyclone.data.base import DataPoint

    _uid[0] += 1
    tag = tag if tag is not None else "g%d_%d" % (_uid[0], int(rng.integers(0, 2 ** 31)))
    if kind == "twins":
        # data points with bit-identical grids (mutations with identical counts): sibling clones then have identical
        # likelihood vectors, which is what order-/multiplicity-insensitive cache keys must cope with
        base = make_values(rng, max(1, (n + 1) // 2), D, G, "moderate")
        vals = [base[i // 2].copy() for i in range(n)]
    else:
        vals = make_values(rng, n, D, G, kind)
    data = []
    for i, v in enumerate(vals):
        size = 1 if sizes is None else sizes[i]
        prior = outlier_prior[i] if isinstance(outlier_prior, (list, tuple)) else outlier_prior  # one value or one per point
        if prior and prior > 0:
            op, opn = math.log(prior) * size, math.log1p(-prior) * size if prior < 1 else -np.inf
        else:
            op, opn = 0, 0.0
        data.append(DataPoint(i, v, name="%s_%d" % (tag, i), outlier_prob=op, outlier_prob_not=opn))
    return data


# ----------------------------------------------------------------------------- materialisation
def build_tree(forest, data, grid_size=None, order=None, child_order_rng=None, incremental_rng=None):
    """Build a phyclone Tree for an abstract forest bottom-up through the public API.

    Returns (tree, names) where names[i] is the clone name of block i.  ``order``: a post-order of blocks to use
    (default: forest.postorder()).  Clone names are 0..K-1 in creation order (create_root_node's precondition).
    ``incremental_rng``: clones are created holding one data point each; the others are then added one at a time in a
    random order through add_data_point_to_node, some by way of another clone first (added there, removed, re-added)."""
    from phyclone.tree import Tree

    if grid_size is None:
        grid_size = data[0].shape
    tree = Tree(grid_size)
    names = {}
    later = []
    order = forest.postorder() if order is None else order
    for i in order:
        ch = [names[c] for c in forest.children(i)]
        if child_order_rng is not None and len(ch) > 1:
            child_order_rng.shuffle(ch)
        pts = list(forest.blocks[i])
        if incremental_rng is not None:
            incremental_rng.shuffle(pts)
            later.extend((j, i) for j in pts[1:])
            pts = pts[:1]
        names[i] = tree.create_root_node(children=ch, data=[data[j] for j in pts])
    if later:
        incremental_rng.shuffle(later)
        for j, i in later:
            if forest.K > 1 and incremental_rng.random() < 0.4:
                other = int(incremental_rng.integers(0, forest.K))
                tree.add_data_point_to_node(data[j], names[other])
                tree.remove_data_point_from_node(data[j], names[other])
            tree.add_data_point_to_node(data[j], names[i])
    for j in forest.outliers:
        tree.add_data_point_to_outliers(data[j])
    return tree, names


def tree_key(tree):
    """Canonical key of a phyclone tree read through public accessors only (no defaultdict reads)."""
    clades = set()
    node_data = tree.node_data
    out_name = tree.outlier_node_name

    def rec(node):
        s = set(dp.idx for dp in node_data.get(node, []))
        for c in tree.get_children(node):
            s |= rec(c)
        clades.add(frozenset(s))
        return s

    for r in tree.roots:
        rec(r)
    outs = frozenset(dp.idx for dp in node_data.get(out_name, []))
    return (frozenset(clades), outs)


def tree_to_forest(tree):
    """Abstract forest of a phyclone tree (public accessors only)."""
    node_data = tree.node_data
    out_name = tree.outlier_node_name
    nodes = list(tree.nodes)
    idx = {n: i for i, n in enumerate(nodes)}
    blocks = [[dp.idx for dp in node_data.get(n, [])] for n in nodes]
    parent = []
    for n in nodes:
        p = tree.get_parent(n)
        parent.append(None if p == tree.root_node_name else idx[p])
    outs = [dp.idx for dp in node_data.get(out_name, [])]
    return AForest(blocks, parent, outs), nodes
