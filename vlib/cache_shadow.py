"""cache_shadow: wraps each memoised entry point; on every call also runs the undecorated original on the same
arguments at that moment and compares; remembers a digest of every value a cache returned to detect later mutation of
a cached object through an alias.  Installed from outside by rebinding the module globals that the code looks up.
"""

import hashlib
import pickle

import numpy as np

from vlib import gen

STATS = {}
FAILS = []
_installed = [False]
_bypass = [False]
_digests = {}
REL = 1e-9
FLOOR_REL_LOG = np.log(1e-60)


def reset():
    STATS.clear()
    del FAILS[:]
    _digests.clear()


def _count(k, n=1):
    STATS[k] = STATS.get(k, 0) + n


def _fail(what, detail=None):
    if len(FAILS) < 40:
        FAILS.append({"what": what, "detail": detail})


def arrays_agree(a, b):
    a = np.asarray(a, dtype=float)
    b = np.asarray(b, dtype=float)
    if a.shape != b.shape:
        return False, float("inf")
    if a.ndim == 0:
        d = abs(float(a) - float(b))
        return d <= REL * (1 + abs(float(b))), d
    peak = np.maximum(a, b).max(axis=-1, keepdims=True)
    if a.shape[-1] >= 1000:
        # FFT path: the property promises agreement only down to about 1e-6 of the row peak (FFT noise band), and an
        # order-insensitive hit legitimately returns the transform of the other argument order
        with np.errstate(invalid="ignore", over="ignore"):
            d = np.abs(np.exp(a - peak) - np.exp(b - peak))
        ok = bool(np.all(d <= 1e-5)) and bool(np.all(np.isfinite(a) == np.isfinite(b)))
        return ok, float(np.nanmax(d)) if d.size else 0.0
    live = np.maximum(a, b) > peak + FLOOR_REL_LOG
    with np.errstate(invalid="ignore"):
        d = np.where(live, np.abs(a - b), 0.0)
        tol = REL * (1 + np.maximum(np.abs(a), np.abs(b)))
        ok = np.all((d <= tol) | ~live) and np.all(np.isfinite(a) == np.isfinite(b))
    return bool(ok), float(np.nanmax(d)) if d.size else 0.0


def _array_digest(x):
    return hashlib.blake2b(np.ascontiguousarray(x).tobytes(), digest_size=12).hexdigest()


def _hits(fn):
    return fn.cache_info().hits


# ----------------------------------------------------------------------------- array caches
def shadow_array_fn(name, cached, uncached):
    def wrapper(*args):
        if _bypass[0]:
            return uncached(*args)
        h0 = _hits(cached)
        res = cached(*args)
        hit = _hits(cached) > h0
        _count(name + "_calls")
        if hit:
            _count(name + "_hits")
        _bypass[0] = True
        try:
            ref = uncached(*args)
        finally:
            _bypass[0] = False
        ok, dev = arrays_agree(res, ref)
        STATS[name + "_max_dev"] = max(STATS.get(name + "_max_dev", 0.0), dev if np.isfinite(dev) else 0.0)
        if not ok:
            _fail("%s: memoised result differs from the unmemoised computation on the same arguments%s"
                  % (name, " (cache hit)" if hit else " (cache miss)"), {"max_dev": dev, "hit": hit})
        # mutation-through-alias guard: a value handed out by the cache must stay byte-identical
        if isinstance(res, np.ndarray):
            key = (name, id(res))
            dg = _array_digest(res)
            if hit and key in _digests and _digests[key][0] != dg and _digests[key][1] is res:
                _fail("%s: a cached array changed after it was stored (mutated through an alias)" % name)
            _digests[key] = (dg, res)
            if len(_digests) > 20000:
                _digests.clear()
        return res

    wrapper.cache_info = cached.cache_info
    wrapper.cache_clear = cached.cache_clear
    wrapper.__wrapped__ = getattr(cached, "__wrapped__", None)
    return wrapper


# ----------------------------------------------------------------------------- memoisation the property does not name
_KNOWN = {"_convolve_two_children", "compute_log_S", "_get_cached_semi_proposal_dist", "_get_cached_full_proposal_dist",
          "get_cached_new_tree"}


def clear_other_caches():
    """The unmemoised reference must owe nothing to *any* memoisation in the package: every other cached callable found
    in the package's modules (anything with cache_clear / cache_info that is not one of the five shadowed entry points -
    on the pinned code these are pure integer helpers) is cleared before the reference is computed."""
    import sys

    n = 0
    for mname, mod in list(sys.modules.items()):
        if not mname.startswith("phyclone") or mod is None:
            continue
        for name, obj in list(vars(mod).items()):
            if name in _KNOWN or not callable(obj):
                continue
            if hasattr(obj, "cache_clear") and hasattr(obj, "cache_info"):
                try:
                    if obj.cache_info().currsize:
                        n += 1
                    obj.cache_clear()
                except Exception:
                    pass
    if n:
        _count("other_caches_cleared_before_a_reference", n)


# ----------------------------------------------------------------------------- proposal caches
def _holder_key(h):
    return gen.key_str(gen.tree_key(h.tree))


def proposal_summary(prop):
    """Support and probabilities of a proposal distribution object, by canonical tree key."""
    out = {"support": {}}
    for holder, lp in prop._log_p.items():
        out["support"][_holder_key(holder)] = float(lp)
    for attr in ("parent_is_empty_tree", "_cached_log_old_num_roots"):
        if hasattr(prop, attr):
            try:
                out[attr] = float(getattr(prop, attr))
            except AttributeError:
                pass
    if hasattr(prop, "_q_dist"):
        try:
            out["q"] = [float(x) for x in prop._q_dist]
            out["q_keys"] = [_holder_key(h) for h in prop._curr_trees]
        except AttributeError:
            pass
    return out


def summaries_agree(a, b):
    if set(a["support"]) != set(b["support"]):
        return "support differs: %s vs %s" % (sorted(a["support"]), sorted(b["support"]))
    for k in a["support"]:
        x, y = a["support"][k], b["support"][k]
        if not (abs(x - y) <= REL * (1 + abs(y)) or (x == y)):
            return "log-probability of %s differs: %r vs %r" % (k, x, y)
    for attr in ("parent_is_empty_tree", "_cached_log_old_num_roots"):
        if (attr in a) != (attr in b) or (attr in a and abs(a[attr] - b[attr]) > REL * (1 + abs(b[attr]))):
            return "%s differs" % attr
    if ("q" in a) != ("q" in b):
        return "existing-clone distribution missing"
    if "q" in a:
        da = dict(zip(a["q_keys"], a["q"]))
        db = dict(zip(b["q_keys"], b["q"]))
        if set(da) != set(db) or any(abs(da[k] - db[k]) > REL for k in da):
            return "existing-clone sampling distribution differs"
    return None


def shadow_proposal_fn(name, cached):
    uncached = cached.__wrapped__

    def wrapper(data_point, kernel, parent_particle, outlier_proposal_prob, alpha):
        bt_state = None
        if parent_particle is not None:
            dq = parent_particle._built_tree
            bt_state = list(dq)
        h0 = _hits(cached)
        res = cached(data_point, kernel, parent_particle, outlier_proposal_prob, alpha)
        hit = _hits(cached) > h0
        _count(name + "_calls")
        if hit:
            _count(name + "_hits")
        after = None
        if parent_particle is not None:
            after = list(parent_particle._built_tree)
            # re-arm what the unmemoised call would find at this moment
            parent_particle._built_tree.clear()
            parent_particle._built_tree.extend(bt_state if bt_state else [None])
        clear_other_caches()
        try:
            ref = uncached(data_point, kernel, parent_particle, outlier_proposal_prob, alpha)
        finally:
            if parent_particle is not None:
                parent_particle._built_tree.clear()
                parent_particle._built_tree.extend(after)
        why = summaries_agree(proposal_summary(res), proposal_summary(ref))
        if why is not None:
            _fail("%s: memoised proposal distribution differs from a freshly built one (%s)%s"
                  % (name, why, " (cache hit)" if hit else ""), {"alpha": alpha, "hit": hit})
        if res.data_point is not data_point and res.data_point.idx != data_point.idx:
            _fail("%s: cached proposal belongs to another data point" % name)
        if float(res.tree_dist.prior.alpha) != float(alpha):
            # the proposal keeps a reference to the shared tree_dist; its *stored* probabilities were computed under
            # the alpha of the key, which is what matters -- compared above against a fresh build at this moment
            _count(name + "_alpha_moved_since_build")
        return res

    wrapper.cache_info = cached.cache_info
    wrapper.cache_clear = cached.cache_clear
    wrapper.__wrapped__ = uncached
    return wrapper


def shadow_new_tree_fn(name, cached):
    uncached = cached.__wrapped__

    def wrapper(parent_particle, data_point, children, tree_dist, perm_dist):
        h0 = _hits(cached)
        res = cached(parent_particle, data_point, children, tree_dist, perm_dist)
        hit = _hits(cached) > h0
        _count(name + "_calls")
        if hit:
            _count(name + "_hits")
        clear_other_caches()
        ref = uncached(parent_particle, data_point, children, tree_dist, perm_dist)
        kr, kf = _holder_key(res), _holder_key(ref)
        if kr != kf:
            _fail("%s: cached new-clone tree differs from a freshly built one" % name, {"cached": kr, "fresh": kf, "hit": hit})
        else:
            for attr in ("log_p", "log_p_one", "log_pdf"):
                x, y = float(getattr(res, attr)), float(getattr(ref, attr))
                if not abs(x - y) <= REL * (1 + abs(y)):
                    _fail("%s: cached new-clone tree's %s differs from a freshly built one" % (name, attr),
                          {"cached": x, "fresh": y, "hit": hit, "alpha_now": float(tree_dist.prior.alpha)})
            if res.num_children_on_node_that_matters != ref.num_children_on_node_that_matters:
                _fail("%s: cached new-clone tree has a different child count" % name)
        dg = hashlib.blake2b(pickle.dumps((sorted(res.labels.items()), float(res.log_p), float(res.log_p_one))),
                             digest_size=12).hexdigest()
        key = (name, id(res))
        if hit and key in _digests and _digests[key][1] is res and _digests[key][0] != dg:
            _fail("%s: a cached tree holder changed after it was stored" % name)
        _digests[key] = (dg, res)
        return res

    wrapper.cache_info = cached.cache_info
    wrapper.cache_clear = cached.cache_clear
    wrapper.__wrapped__ = uncached
    return wrapper


def install():
    if _installed[0]:
        return
    _installed[0] = True
    import phyclone.smc.kernels.fully_adapted as fa
    import phyclone.smc.kernels.semi_adapted as sa
    import phyclone.tree.tree_node as tn
    import phyclone.tree.utils as tu

    conv_cached = tu._convolve_two_children
    conv_shadow = shadow_array_fn("pairwise_convolution", conv_cached, conv_cached.__wrapped__)
    tu._convolve_two_children = conv_shadow
    s_cached = tu.compute_log_S

    def s_uncached(children):
        return s_cached.__wrapped__(np.array(children, order="C"))

    s_shadow = shadow_array_fn("children_recursion", s_cached, s_uncached)
    tu.compute_log_S = s_shadow
    tn.compute_log_S = s_shadow
    sa._get_cached_semi_proposal_dist = shadow_proposal_fn("semi_proposal", sa._get_cached_semi_proposal_dist)
    fa._get_cached_full_proposal_dist = shadow_proposal_fn("full_proposal", fa._get_cached_full_proposal_dist)
    sa.get_cached_new_tree = shadow_new_tree_fn("new_clone_tree", sa.get_cached_new_tree)
