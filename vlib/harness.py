"""Shared harness: paths, context object, verdicts, evidence, sharded execution.

Every check module exposes ``run(ctx)``.  The context collects

* violations  (-> exit 1, ``VIOLATION property=<id> replay=<path>``)
* known findings (-> ``KNOWN-FINDING: property=<id> ...``, exit 0)
* inconclusive reasons (-> exit 2, ``INCONCLUSIVE property=<id> reason=...``)
* coverage counters and samples (-> evidence/<id>.json)

Nothing here imports phyclone; that happens in the check modules after
``setup_paths()`` put the repository under test first on ``sys.path``.
"""

import json
import os
import queue
import subprocess
import sys
import threading
import time
import traceback

VERIF_DIR = os.path.dirname(os.path.dirname(os.path.abspath(__file__)))
DEPS_DIR = os.path.join(VERIF_DIR, ".deps")
PYTHON = "/venv/bin/python"
WHEELS = "/opt/veriftools/wheels"
GUARD = "PHYCLONE_VERIF"


def repo_path():
    return os.environ.get("VERIF_REPO", "/repo")


def ensure_deps():
    """Idempotent offline install of the contract libraries beside the repo's interpreter."""
    marker = os.path.join(DEPS_DIR, "icontract")
    if os.path.isdir(marker) and os.path.isdir(os.path.join(DEPS_DIR, "jsonschema")):
        return
    os.makedirs(DEPS_DIR, exist_ok=True)
    subprocess.run(
        [PYTHON, "-m", "pip", "install", "-q", "--no-index", "--find-links", WHEELS, "--target", DEPS_DIR,
         "icontract", "deal", "jsonschema"],
        check=True,
        stdout=subprocess.DEVNULL,
    )


def setup_paths():
    """Repository under test first, then /verif, then the contract libraries."""
    rp = repo_path()
    for p in (DEPS_DIR, VERIF_DIR, rp):
        if p in sys.path:
            sys.path.remove(p)
        sys.path.insert(0, p)
    os.environ[GUARD] = "1"


def child_env(extra=None):
    env = dict(os.environ)
    env["PYTHONPATH"] = os.pathsep.join([repo_path(), VERIF_DIR, DEPS_DIR])
    env.setdefault("PYTHONHASHSEED", "0")
    env[GUARD] = "1"
    env["NUMBA_NUM_THREADS"] = "1"
    env["OMP_NUM_THREADS"] = "1"
    env["OPENBLAS_NUM_THREADS"] = "1"
    env["MKL_NUM_THREADS"] = "1"
    if extra:
        env.update(extra)
    return env


def jsonable(x):
    """Best-effort conversion of numpy / tuples / sets into JSON-serialisable values."""
    try:
        import numpy as np
    except Exception:  # pragma: no cover
        np = None
    if isinstance(x, dict):
        return {str(k): jsonable(v) for k, v in x.items()}
    if isinstance(x, (list, tuple)):
        return [jsonable(v) for v in x]
    if isinstance(x, (set, frozenset)):
        try:
            return [jsonable(v) for v in sorted(x)]
        except TypeError:
            return sorted((jsonable(v) for v in x), key=lambda v: json.dumps(v, sort_keys=True))
    if np is not None:
        if isinstance(x, np.ndarray):
            return jsonable(x.tolist())
        if isinstance(x, np.generic):
            return jsonable(x.item())
    if isinstance(x, float):
        if x != x:
            return "nan"
        if x in (float("inf"), float("-inf")):
            return "inf" if x > 0 else "-inf"
        return x
    if isinstance(x, (int, str, bool)) or x is None:
        return x
    return repr(x)


class Inconclusive(Exception):
    pass


class Context(object):
    def __init__(self, prop_id, tier, seed, level="exploration"):
        self.prop_id = prop_id
        self.tier = tier
        self.seed = seed
        self.level = level
        self.violations = []
        self.known = {}  # finding id -> (text, count)
        self.inconclusive = []
        self.counters = {}
        self.samples = []
        self.distinct = set()
        self.rule = ""
        self.assumptions = []
        self.extra = {}
        self.exhaustive = None
        self.t0 = time.time()
        self._kf = None

    # ---------------------------------------------------------------- verdicts
    def violation(self, what, witness=None):
        """Record a violation; ``what`` is a short mechanism-level description."""
        self.violations.append({"what": what, "witness": jsonable(witness)})

    def known_finding(self, finding_id, text):
        cnt = self.known.get(finding_id, (text, 0))[1]
        self.known[finding_id] = (text, cnt + 1)

    def inconc(self, reason):
        self.inconclusive.append(reason)

    # ---------------------------------------------------------------- coverage
    def count(self, key, n=1):
        self.counters[key] = self.counters.get(key, 0) + n

    def maxi(self, key, v):
        if v is None:
            return
        v = float(v)
        if v != v:
            return
        if key not in self.extra or v > self.extra[key]:
            self.extra[key] = v

    def sample(self, s, limit=6):
        if len(self.samples) < limit:
            self.samples.append(jsonable(s))

    def see(self, key):
        """Register a distinct non-trivial case (hashable key)."""
        self.distinct.add(key)

    def merge(self, part):
        """Merge a shard's partial result dict (see ``Partial``)."""
        for v in part.get("violations", []):
            self.violations.append(v)
        for fid, (text, cnt) in part.get("known", {}).items():
            old = self.known.get(fid, (text, 0))[1]
            self.known[fid] = (text, old + cnt)
        for r in part.get("inconclusive", []):
            self.inconclusive.append(r)
        for k, v in part.get("counters", {}).items():
            self.count(k, v)
        for s in part.get("samples", []):
            self.sample(s)
        for d in part.get("distinct", []):
            self.distinct.add(d if not isinstance(d, list) else json.dumps(d, sort_keys=True))
        for k, v in part.get("maxi", {}).items():
            self.maxi(k, v)

    # ---------------------------------------------------------------- known findings
    def findings(self):
        if self._kf is None:
            with open(os.path.join(VERIF_DIR, "known_findings.json")) as fh:
                self._kf = json.load(fh)
        return self._kf

    def finding_listed(self, finding_id):
        for f in self.findings().get("findings", []):
            if f["id"] == finding_id and f["property"] == self.prop_id and f.get("status", "known") == "known":
                return f
        return None

    # ---------------------------------------------------------------- sharding
    def map(self, module, func, tasks, timeout=900, workers=None, python_flags=()):
        """Run ``module.func(task)`` for every task in worker subprocesses; returns list of results
        (same order).  A dead / timed-out worker makes the check inconclusive.  python_flags: interpreter flags of the
        workers, e.g. ("-O",) to run the code under test (and the monitors) with assert statements switched off."""
        return run_tasks(self, module, func, tasks, timeout=timeout, workers=workers, python_flags=python_flags)


class Partial(object):
    """What a shard returns: the same recording surface as Context, serialisable."""

    def __init__(self):
        self.violations = []
        self.known = {}
        self.inconclusive = []
        self.counters = {}
        self.samples = []
        self.distinct = set()
        self.maxis = {}

    def violation(self, what, witness=None):
        if len(self.violations) < 25:
            self.violations.append({"what": what, "witness": jsonable(witness)})
        else:
            self.count("violations_not_listed")

    def known_finding(self, finding_id, text):
        cnt = self.known.get(finding_id, (text, 0))[1]
        self.known[finding_id] = (text, cnt + 1)

    def inconc(self, reason):
        self.inconclusive.append(reason)

    def count(self, key, n=1):
        self.counters[key] = self.counters.get(key, 0) + n

    def maxi(self, key, v):
        if v is None:
            return
        v = float(v)
        if v != v:
            return
        if key not in self.maxis or v > self.maxis[key]:
            self.maxis[key] = v

    def sample(self, s, limit=3):
        if len(self.samples) < limit:
            self.samples.append(jsonable(s))

    def see(self, key):
        self.distinct.add(key if isinstance(key, (str, int)) else json.dumps(jsonable(key), sort_keys=True))

    def to_dict(self):
        return {
            "violations": self.violations,
            "known": {k: list(v) for k, v in self.known.items()},
            "inconclusive": self.inconclusive,
            "counters": self.counters,
            "samples": self.samples,
            "distinct": sorted(self.distinct, key=str),
            "maxi": self.maxis,
        }


# ------------------------------------------------------------------------- worker pool
def n_workers():
    try:
        n = len(os.sched_getaffinity(0))
    except Exception:
        n = os.cpu_count() or 4
    return max(1, min(16, n))


def run_tasks(ctx, module, func, tasks, timeout=900, workers=None, python_flags=()):
    tasks = list(tasks)
    if not tasks:
        return []
    if getattr(ctx, "tier", None) == "quick":
        timeout = min(timeout, 900)  # quick-tier tasks take seconds; a stuck worker must not hold the check for long
    w = min(workers or n_workers(), len(tasks))
    results = [None] * len(tasks)
    q = queue.Queue()
    for i, t in enumerate(tasks):
        q.put((i, t))
    lock = threading.Lock()

    def serve():
        proc = None
        try:
            while True:
                try:
                    i, t = q.get_nowait()
                except queue.Empty:
                    break
                if proc is None or proc.poll() is not None:
                    proc = subprocess.Popen(
                        [PYTHON, "-X", "faulthandler"] + list(python_flags) + ["-m", "vlib.worker", module, func],
                        stdin=subprocess.PIPE,
                        stdout=subprocess.PIPE,
                        stderr=subprocess.PIPE if os.environ.get("VERIF_QUIET_WORKERS", "1") == "1" else None,
                        env=child_env(),
                        cwd=VERIF_DIR,
                        text=True,
                    )
                    if proc.stderr is not None:
                        threading.Thread(target=_drain, args=(proc.stderr,), daemon=True).start()
                killed = []
                timer = threading.Timer(timeout, lambda p=proc: (killed.append(1), p.kill()))
                timer.start()
                try:
                    proc.stdin.write(json.dumps(jsonable(t)) + "\n")
                    proc.stdin.flush()
                    line = proc.stdout.readline()
                except Exception:
                    line = ""
                finally:
                    timer.cancel()
                if not line:
                    with lock:
                        if killed:
                            ctx.inconc("worker watchdog (%ds) fired on task %d of %s.%s" % (timeout, i, module, func))
                        else:
                            ctx.inconc("worker died on task %d of %s.%s (rc=%s)" % (i, module, func, proc.poll()))
                    try:
                        proc.kill()
                    except Exception:
                        pass
                    proc = None
                    continue
                res = json.loads(line)
                with lock:
                    results[i] = res
        finally:
            if proc is not None and proc.poll() is None:
                try:
                    proc.stdin.close()
                    proc.wait(timeout=10)
                except Exception:
                    proc.kill()

    threads = [threading.Thread(target=serve) for _ in range(w)]
    for th in threads:
        th.start()
    for th in threads:
        th.join()
    out = []
    for i, r in enumerate(results):
        if r is None:
            out.append(None)
            continue
        if "harness_error" in r:
            ctx.inconc("harness error in %s.%s task %d: %s" % (module, func, i, r["harness_error"][-1500:]))
            out.append(None)
            continue
        if "partial" in r and r["partial"] is not None:
            ctx.merge(r["partial"])
        out.append(r.get("value"))
    return out


def _drain(stream):
    keep = os.environ.get("VERIF_WORKER_STDERR")
    for line in stream:
        if keep:
            sys.stderr.write(line)


# ------------------------------------------------------------------------- evidence / exit
def write_evidence(ctx):
    evaluations = int(ctx.counters.get("evaluations", 0))
    cov = {
        "evaluations": evaluations,
        "distinct_nontrivial": len(ctx.distinct),
        "rule": ctx.rule,
        "samples": ctx.samples,
        "counters": {k: v for k, v in sorted(ctx.counters.items())},
        "known_findings_seen": {k: v[1] for k, v in ctx.known.items()},
        "inconclusive": ctx.inconclusive[:10],
    }
    if ctx.exhaustive is not None:
        cov["exhaustive"] = bool(ctx.exhaustive)
    for k, v in ctx.extra.items():
        cov[k] = jsonable(v)
    ev = {
        "property_id": ctx.prop_id,
        "tier": ctx.tier,
        "seed": int(ctx.seed),
        "level": ctx.level,
        "coverage": cov,
        "assumptions": ctx.assumptions,
        "wall_s": round(time.time() - ctx.t0, 2),
        "violations": len(ctx.violations),
    }
    path = os.path.join(os.environ.get("VERIF_EVIDENCE_DIR") or os.path.join(VERIF_DIR, "evidence"), "%s.json" % ctx.prop_id)
    os.makedirs(os.path.dirname(path), exist_ok=True)
    try:
        import jsonschema

        with open("/root/.vp/EVIDENCE.schema.json") as fh:
            schema = json.load(fh)
        jsonschema.validate(ev, schema)
    except ImportError:
        pass
    except FileNotFoundError:
        pass
    except Exception as e:  # schema violation: make it visible, and inconclusive
        ctx.inconc("evidence does not validate: %s" % str(e)[:300])
    tmp = path + ".tmp"
    with open(tmp, "w") as fh:
        json.dump(ev, fh, indent=1, sort_keys=True)
        fh.write("\n")
    os.replace(tmp, path)
    return path


def finish(ctx):
    """Print verdict lines, write evidence and replay, return the exit code."""
    code = 0
    replay = None
    if ctx.violations:
        rdir = os.environ.get("VERIF_REPLAY_DIR") or os.path.join(VERIF_DIR, "replays")
        os.makedirs(rdir, exist_ok=True)
        replay = os.path.join(rdir, "%s_%s_seed%d.json" % (ctx.prop_id, ctx.tier, ctx.seed))
        with open(replay, "w") as fh:
            json.dump(
                {
                    "property_id": ctx.prop_id,
                    "tier": ctx.tier,
                    "seed": ctx.seed,
                    "repo": repo_path(),
                    "violations": ctx.violations[:50],
                    "n_violations": len(ctx.violations),
                },
                fh,
                indent=1,
            )
            fh.write("\n")
    if not ctx.violations and not ctx.inconclusive:
        if int(ctx.counters.get("evaluations", 0)) < 1 or len(ctx.distinct) < 2:
            ctx.inconc("monitor observed too little (evaluations=%s distinct=%d)"
                       % (ctx.counters.get("evaluations", 0), len(ctx.distinct)))
    write_evidence(ctx)
    for fid, (text, cnt) in sorted(ctx.known.items()):
        print("KNOWN-FINDING: property=%s %s [%s, observed %d times]" % (ctx.prop_id, text, fid, cnt))
    if ctx.violations:
        seen = set()
        for v in ctx.violations:
            if v["what"] not in seen:
                seen.add(v["what"])
                if len(seen) <= 12:
                    print("  violation: %s" % v["what"])
        print("VIOLATION property=%s replay=%s" % (ctx.prop_id, replay))
        code = 1
    elif ctx.inconclusive:
        for r in ctx.inconclusive[:5]:
            print("INCONCLUSIVE property=%s reason=%s" % (ctx.prop_id, r.replace("\n", " | ")[:600]))
        code = 2
    else:
        print("HELD property=%s tier=%s seed=%d evaluations=%s distinct=%d wall=%.1fs"
              % (ctx.prop_id, ctx.tier, ctx.seed, ctx.counters.get("evaluations", 0), len(ctx.distinct),
                 time.time() - ctx.t0))
    return code


def describe_exception(exc, repo=None):
    """(type name, innermost frame inside the repository under test, message) for bucketing.

    Walking from the innermost frame outwards, the first frame that belongs either to the repository under test or to
    the verification code decides who raised: an exception that originates in /verif (a monitor or the harness tripping
    over e.g. a renamed private attribute) is a harness error ('outside-repo' -> inconclusive), never a violation."""
    repo = repo or repo_path()
    tb = traceback.extract_tb(exc.__traceback__)
    for fr in reversed(tb):
        if not os.path.isabs(fr.filename):
            continue  # compiled extension frames carry relative pseudo paths (numpy/random/_generator.pyx)
        fn = os.path.abspath(fr.filename)
        if fn.startswith(DEPS_DIR + os.sep) or fn.endswith(os.sep + os.path.join("vlib", "choice_rng.py")):
            continue  # contract-library wrappers sit between repository frames; ChoiceRNG stands in for numpy
        if fn.startswith(VERIF_DIR + os.sep):
            return type(exc).__name__, "outside-repo", str(exc)[:200]
        if fn.startswith(repo + os.sep) and (os.sep + "tests" + os.sep) not in fn:
            return type(exc).__name__, "%s:%s" % (os.path.relpath(fn, repo), fr.name), str(exc)[:200]
    return type(exc).__name__, "outside-repo", str(exc)[:200]
