"""ChoiceRNG: a drop-in for the slice of numpy.random.Generator the samplers use, in which every draw is a choice
point with finitely many alternatives and exact probabilities.  ``explore`` re-executes a function depth-first over all
choice sequences (stateless re-execution, as in systematic schedule exploration) and returns each outcome with its exact
path probability.

Surface: random(), integers(lo, hi), choice(seq) / choice(seq, k, replace=False), shuffle(list), multinomial(n, p).
``random()`` returns a lazy uniform: it only supports comparison with a threshold (the only use in the code base); each
comparison forks and narrows the interval the value is known to lie in.
"""

import itertools
import math

import numpy as np


class PrunedPath(Exception):
    pass


class ChoiceModelError(Exception):
    """The code used the generator in a way this model does not cover (reported as inconclusive, never as a verdict)."""


class LazyUniform(object):
    __slots__ = ("rng", "lo", "hi")

    def __init__(self, rng):
        self.rng = rng
        self.lo = 0.0
        self.hi = 1.0

    def _lt(self, t, strict=True):
        t = float(t)
        if t <= self.lo:
            return False
        if t >= self.hi:
            return True
        p_true = (t - self.lo) / (self.hi - self.lo)
        k = self.rng._choose([p_true, 1.0 - p_true], ("u<", t))
        if k == 0:
            self.hi = t
            return True
        self.lo = t
        return False

    def __lt__(self, t):
        return self._lt(t)

    def __le__(self, t):
        return self._lt(t)

    def __gt__(self, t):
        return not self._lt(t)

    def __ge__(self, t):
        return not self._lt(t)

    def __float__(self):
        raise ChoiceModelError("uniform draw used as a number, not compared with a threshold")

    def _arith(self, *a):
        raise ChoiceModelError("uniform draw used in arithmetic")

    __add__ = __radd__ = __sub__ = __rsub__ = __mul__ = __rmul__ = __truediv__ = __rtruediv__ = _arith


class ChoiceRNG(object):
    def __init__(self, prefix=(), min_path_prob=0.0, ordered_subsets=False):
        self.prefix = list(prefix)
        self.pos = 0
        self.trail = []  # (chosen index, list of probabilities)
        self.prob = 1.0
        self.min_path_prob = min_path_prob
        self.ordered_subsets = ordered_subsets
        self.max_norm_dev = 0.0
        self.tags = []

    # ------------------------------------------------------------------ core
    def _choose(self, probs, tag=None):
        if self.pos < len(self.prefix):
            k = self.prefix[self.pos]
            if k >= len(probs) or probs[k] <= 0.0:
                raise ChoiceModelError("replay diverged at choice %d (non-deterministic code under replay)" % self.pos)
        else:
            k = 0
            while k < len(probs) and probs[k] <= 0.0:
                k += 1
            if k == len(probs):
                raise ChoiceModelError("choice point without a positive alternative")
        self.pos += 1
        self.trail.append((k, probs))
        self.tags.append(tag)
        self.prob *= probs[k]
        if self.prob < self.min_path_prob:
            raise PrunedPath()
        return k

    def _uniform_pick(self, n, tag=None):
        if n <= 0:
            raise ChoiceModelError("uniform pick from nothing")
        if n == 1:
            return 0
        return self._choose([1.0 / n] * n, tag)

    # ------------------------------------------------------------------ Generator surface
    def random(self, size=None):
        if size is not None:
            raise ChoiceModelError("random(size) not modelled")
        return LazyUniform(self)

    def integers(self, low, high=None, size=None, endpoint=False):
        if size is not None:
            raise ChoiceModelError("integers(size) not modelled")
        if high is None:
            low, high = 0, low
        low, high = int(low), int(high)
        if endpoint:
            high += 1
        k = self._uniform_pick(high - low, ("int", low, high))
        return np.int64(low + k)

    def choice(self, a, size=None, replace=True, p=None):
        if isinstance(a, (int, np.integer)):
            arr = np.arange(int(a))
        else:
            arr = np.asarray(a)
        if p is not None:
            # categorical draws with given probabilities (numpy checks the normalisation to sqrt(eps))
            pv = np.asarray(p, dtype=float)
            if pv.ndim != 1 or len(pv) != len(arr):
                raise ValueError("'a' and 'p' must have same size")
            if np.any(np.isnan(pv)) or np.any(pv < 0):
                raise ValueError("probabilities are not non-negative")
            tot = float(pv.sum())
            self.max_norm_dev = max(self.max_norm_dev, abs(tot - 1.0))
            if abs(tot - 1.0) > 1.5e-8:
                raise ValueError("probabilities do not sum to 1")
            probs = [float(x) / tot for x in pv]
            if size is None:
                return arr[self._choose_sparse(probs, ("choice-p", len(probs)))]
            if not replace:
                raise ChoiceModelError("choice(p=, replace=False) not modelled")
            size = int(size)
            if size > 6:
                raise ChoiceModelError("choice(p=, size>6) not modelled (too many outcomes)")
            return arr[[self._choose_sparse(probs, ("choice-p", len(probs))) for _ in range(size)]]
        if size is None:
            if len(arr) == 0:
                raise ValueError("a cannot be empty unless no samples are taken")
            k = self._uniform_pick(len(arr), ("choice", len(arr)))
            return arr[k]
        size = int(size)
        if replace:
            raise ChoiceModelError("choice(replace=True, size) not modelled")
        if size > len(arr):
            raise ValueError("Cannot take a larger sample than population when replace is False")
        if size == 0:
            return arr[:0].copy()
        if size == len(arr) and size > 1:
            # a sample of everything without replacement is a random order: exact law of a uniform permutation
            return self.permutation(arr)
        if self.ordered_subsets:
            remaining = list(range(len(arr)))
            picked = []
            for _ in range(size):
                k = self._uniform_pick(len(remaining), ("choice-ordered", len(remaining)))
                picked.append(remaining.pop(k))
            return arr[picked]
        combos = list(itertools.combinations(range(len(arr)), size))
        k = self._uniform_pick(len(combos), ("choice-subset", len(arr), size))
        return arr[list(combos[k])]

    def shuffle(self, x):
        """In-place; successive picks among the *distinct* remaining values, weighted by multiplicity (exact law of
        the resulting sequence under a uniform shuffle)."""
        if isinstance(x, np.ndarray):
            items = list(x)
        else:
            items = list(x)
        n = len(items)
        remaining = items
        out = []
        while remaining:
            groups = []  # (representative, [positions])
            for pos_i, it in enumerate(remaining):
                for g in groups:
                    if _same(g[0], it):
                        g[1].append(pos_i)
                        break
                else:
                    groups.append((it, [pos_i]))
            if len(groups) == 1:
                out.extend(remaining)
                break
            tot = len(remaining)
            k = self._choose([len(g[1]) / tot for g in groups], ("shuffle", tot))
            out.append(remaining.pop(groups[k][1][0]))
        for i in range(n):
            x[i] = out[i]

    def permutation(self, x):
        if isinstance(x, (int, np.integer)):
            y = list(range(int(x)))
            self.shuffle(y)
            return np.asarray(y, dtype=np.int64)
        src = np.asarray(x)
        y = list(src)
        self.shuffle(y)
        out = np.empty(len(y), dtype=src.dtype)
        for i, v in enumerate(y):
            out[i] = v
        return out

    def _choose_sparse(self, probs, tag):
        """_choose over the alternatives with positive probability only (index into the full list returned)."""
        support = [i for i, q in enumerate(probs) if q > 0.0]
        if not support:
            raise ChoiceModelError("categorical draw without a positive alternative")
        if len(support) == 1:
            return support[0]
        return support[self._choose([probs[i] for i in support], tag)]

    def multinomial(self, n, pvals, size=None):
        if size is not None:
            raise ChoiceModelError("multinomial(size) not modelled")
        p = np.asarray(pvals, dtype=float)
        if p.ndim != 1 or len(p) == 0:
            raise ChoiceModelError("multinomial with bad pvals")
        if np.any(np.isnan(p)) or np.any(p < 0):
            raise ValueError("pvals must be in the range [0, 1] (nan or negative given)")
        s = float(p.sum())
        self.max_norm_dev = max(self.max_norm_dev, abs(s - 1.0))
        if abs(s - 1.0) > 1e-6:
            raise ValueError("sum(pvals) = %r is not 1" % s)
        if len(p) > 1 and float(p[:-1].sum()) > 1.0 + 1e-12:
            # numpy.random.Generator.multinomial rejects this input with exactly this error
            raise ValueError("sum(pvals[:-1]) > 1.0")
        p = p / s
        n = int(n)
        counts = np.zeros(len(p), dtype=np.int64)
        if n == 0:
            return counts
        support = [i for i in range(len(p)) if p[i] > 0.0]
        if len(support) == 1:
            counts[support[0]] = n
            return counts
        if n == 1:
            k = self._choose([float(p[i]) for i in support], ("multinomial1", len(support)))
            counts[support[k]] = 1
            return counts
        comps = list(_compositions(n, len(support)))
        probs = []
        for c in comps:
            lp = math.lgamma(n + 1)
            for ci, i in zip(c, support):
                lp += ci * math.log(p[i]) - math.lgamma(ci + 1)
            probs.append(math.exp(lp))
        tot = sum(probs)
        probs = [q / tot for q in probs]
        k = self._choose(probs, ("multinomial", n, len(support)))
        for ci, i in zip(comps[k], support):
            counts[i] = ci
        return counts

    def spawn(self, n):
        raise ChoiceModelError("spawn not modelled")


def _same(a, b):
    try:
        return bool(a == b)
    except Exception:
        return a is b


def _compositions(n, k):
    if k == 1:
        yield (n,)
        return
    for first in range(n + 1):
        for rest in _compositions(n - first, k - 1):
            yield (first,) + rest


def next_prefix(trail):
    """Deepest choice with an untried positive alternative -> next prefix, or None when exhausted."""
    for depth in range(len(trail) - 1, -1, -1):
        k, probs = trail[depth]
        j = k + 1
        while j < len(probs) and probs[j] <= 0.0:
            j += 1
        if j < len(probs):
            return [t[0] for t in trail[:depth]] + [j]
    return None


def explore(fn, max_paths=None, min_path_prob=0.0, ordered_subsets=False, start_prefix=None):
    """Run ``fn(rng)`` over every choice sequence.  Yields (result, path probability, trail) per execution.
    Pruned paths (probability below min_path_prob) yield (PrunedPath, prob, trail)."""
    prefix = list(start_prefix or [])
    n = 0
    while prefix is not None:
        rng = ChoiceRNG(prefix, min_path_prob=min_path_prob, ordered_subsets=ordered_subsets)
        try:
            res = fn(rng)
        except PrunedPath:
            res = PrunedPath
        yield res, rng.prob, rng
        n += 1
        if max_paths is not None and n >= max_paths:
            return
        prefix = next_prefix(rng.trail)


class RecordingRNG(object):
    """Sampling mode: follows a real numpy Generator but counts draws (used for Monte-Carlo cross-checks)."""

    def __init__(self, gen):
        self.gen = gen
        self.calls = {}

    def __getattr__(self, name):
        attr = getattr(self.gen, name)
        if callable(attr):
            def wrapped(*a, **k):
                self.calls[name] = self.calls.get(name, 0) + 1
                return attr(*a, **k)

            return wrapped
        return attr
