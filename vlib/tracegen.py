"""Synthetic traces, a small Newick parser and the reference trace summariser (C11, C12, C16, C20)."""

import gzip
import pickle

import numpy as np

from vlib import gen


# ----------------------------------------------------------------------------- Newick
def parse_newick(s):
    """'(…)name;' -> (name, [children]) nested tuples with names as strings."""
    s = s.strip()
    if not s.endswith(";"):
        raise ValueError("newick does not end with ';'")
    s = s[:-1]
    pos = [0]

    def node():
        children = []
        if pos[0] < len(s) and s[pos[0]] == "(":
            pos[0] += 1
            while True:
                children.append(node())
                if s[pos[0]] == ",":
                    pos[0] += 1
                    continue
                if s[pos[0]] == ")":
                    pos[0] += 1
                    break
                raise ValueError("bad newick at %d" % pos[0])
        start = pos[0]
        while pos[0] < len(s) and s[pos[0]] not in "(),":
            pos[0] += 1
        return (s[start:pos[0]], children)

    root = node()
    if pos[0] != len(s):
        raise ValueError("trailing characters in newick")
    return root


def newick_nodes(root):
    out = []

    def rec(n):
        out.append(n[0])
        for c in n[1]:
            rec(c)

    rec(root)
    return out


def newick_key(root, clone_of, outlier_label="-1"):
    """Canonical key from a parsed Newick (virtual root at the top) and a mapping data idx -> clone label (str)."""
    by_clone = {}
    for idx, c in clone_of.items():
        by_clone.setdefault(str(c), set()).add(idx)
    clades = set()

    def rec(n):
        s = set(by_clone.get(n[0], set()))
        for c in n[1]:
            s |= rec(c)
        clades.add(frozenset(s))
        return s

    for c in root[1]:
        rec(c)
    return (frozenset(clades), frozenset(by_clone.get(outlier_label, set())))


# ----------------------------------------------------------------------------- synthetic traces
def variant_tree(f, data, rng, variant):
    """The same abstract tree as different objects: 0 plain, 1 shuffled siblings, 2 relabelled by a graft detour,
    3 dict round trip of a shuffled build (2 = relabelled in pre-order)."""
    from phyclone.tree import Tree

    if variant == 0:
        return gen.build_tree(f, data)[0]
    # siblings handed over in a shuffled order and, for the odd variants, clones created in the opposite sibling order
    # (other graph positions and edge order)
    t, names = gen.build_tree(f, data, child_order_rng=rng,
                              order=f.postorder(reverse_siblings=True) if variant in (1, 3) else None)
    outs = list(t.outliers)
    if len(outs) >= 2:
        # the outlier set is a set: the same tree with its outliers assigned in another order
        for dp in outs:
            t.remove_data_point_from_outliers(dp)
        rng.shuffle(outs)
        for dp in outs:
            t.add_data_point_to_outliers(dp)
    if variant == 2:
        t.relabel_nodes()  # pre-order names: a different labelling of the same tree
        return t
    if variant == 3:
        return Tree.from_dict(t.to_dict())
    return t


def make_trace(rng, data, samples, n_chains, n_entries, forests, scores="real", alpha=1.0, tie_prob=0.2, chain_order=None,
               clusters=None):
    """results dict as phyclone run writes it.  entries drawn from ``forests`` with repetition (random variant objects);
    scores: 'real' (log_p_one) or 'synthetic' (random with exact ties)."""
    from phyclone.tree import FSCRPDistribution, TreeJointDistribution

    td = TreeJointDistribution(FSCRPDistribution(alpha))
    results = {}
    chains = list(range(n_chains))
    if chain_order is not None:
        chains = list(chain_order)
    tie_pool = [float(np.round(rng.normal() * 3 - 20, 3)) for _ in range(3)]
    for ch in chains:
        ne = n_entries[ch] if isinstance(n_entries, (list, tuple)) else n_entries
        trace = []
        for i in range(ne):
            f = forests[int(rng.integers(0, len(forests)))]
            t = variant_tree(f, data, rng, int(rng.integers(0, 4)))
            if scores == "real":
                lp = float(td.log_p_one(t))
            else:
                lp = tie_pool[int(rng.integers(0, len(tie_pool)))] if rng.random() < tie_prob else float(rng.normal() * 3 - 20)
            trace.append({"iter": i, "time": 0.0, "alpha": alpha, "log_p_one": lp, "tree": t.to_dict()})
        results[ch] = {"data": data, "samples": samples, "trace": trace, "chain_num": ch}
        if clusters is not None:
            results[ch]["clusters"] = clusters
    return results


def write_trace(results, path):
    with gzip.GzipFile(path, mode="wb") as fh:
        pickle.dump(results, fh)


def entry_key(entry):
    from phyclone.tree import Tree

    return gen.tree_key(Tree.from_dict(entry["tree"]))


def reference_summary(results):
    """{key: {'count', 'max', 'argmax': [(chain, index), ...]}} and the global maximum."""
    summ = {}
    total = 0
    best = None
    for ch, res in results.items():
        for i, e in enumerate(res["trace"]):
            k = entry_key(e)
            total += 1
            s = summ.setdefault(k, {"count": 0, "max": -np.inf, "argmax": []})
            s["count"] += 1
            if e["log_p_one"] > s["max"]:
                s["max"] = e["log_p_one"]
                s["argmax"] = [(ch, i)]
            elif e["log_p_one"] == s["max"]:
                s["argmax"].append((ch, i))
            if best is None or e["log_p_one"] > best:
                best = e["log_p_one"]
    return summ, total, best


def read_table(path):
    import pandas as pd

    return pd.read_csv(path, sep="\t", float_precision="round_trip", keep_default_na=False)


def table_key(table, newick_str, data):
    """Canonical key of the tree described by a results table + Newick string (unclustered input)."""
    name_to_idx = {str(dp.name): dp.idx for dp in data}
    clone_of = {}
    for _, r in table.iterrows():
        clone_of[name_to_idx[str(r["mutation_id"])]] = str(r["clone_id"])
    return newick_key(parse_newick(newick_str), clone_of)
