"""Monitors attached to real Tree objects.  Read-only: private dictionaries are only read with .get / membership
(``Tree._data`` is a defaultdict: indexing a missing key would mutate the tree and make the monitor the defect)."""

import contextlib

import numpy as np
import rustworkx as rx

from vlib import gen


class Broken(Exception):
    def __init__(self, what, detail=None):
        super().__init__(what)
        self.what = what
        self.detail = detail


def tree_wellformed(tree, expect_idxs=None):
    """C07 invariant.  Raises Broken(what) naming the first broken clause; returns number of clauses evaluated."""
    g = tree._graph
    ni = tree._node_indices
    nir = tree._node_indices_rev
    data = tree._data
    root_name = tree.root_node_name
    out_name = tree.outlier_node_name
    n_clauses = 0
    if root_name not in ni:
        raise Broken("virtual root missing from the name->index map")
    root_idx = ni[root_name]
    idxs = list(g.node_indices())
    if root_idx not in idxs:
        raise Broken("virtual root index not in the graph")
    # name <-> index maps are inverse bijections onto the graph's indices and agree with payload ids
    if set(nir.keys()) != set(idxs):
        raise Broken("index->name map does not cover exactly the graph's node indices",
                     {"map": sorted(nir.keys()), "graph": sorted(idxs)})
    if len(ni) != len(nir):
        raise Broken("name->index and index->name maps differ in size", {"names": len(ni), "indices": len(nir)})
    for name, idx in ni.items():
        if nir.get(idx, object()) != name:
            raise Broken("name->index and index->name maps are not inverse", {"name": repr(name), "idx": idx})
    for idx in idxs:
        if g[idx].node_id != nir[idx]:
            raise Broken("node payload id disagrees with the index->name map",
                         {"idx": idx, "payload": repr(g[idx].node_id), "map": repr(nir[idx])})
    n_clauses += 4
    # forest under one virtual root
    if g.in_degree(root_idx) != 0:
        raise Broken("virtual root has a parent")
    for idx in idxs:
        if idx != root_idx and g.in_degree(idx) != 1:
            raise Broken("clone does not have exactly one parent", {"clone": repr(nir[idx]), "in_degree": g.in_degree(idx)})
    if g.num_edges() != len(idxs) - 1:
        raise Broken("edge count is not node count - 1", {"edges": g.num_edges(), "nodes": len(idxs)})
    reach = rx.descendants(g, root_idx)
    if len(reach) != len(idxs) - 1:
        raise Broken("some clone is not reachable from the virtual root", {"reachable": len(reach), "nodes": len(idxs)})
    n_clauses += 4
    # data: each point in exactly one clone or the outlier set; lists, payload sets and labels agree
    seen = {}
    for name, lst in data.items():
        if name == root_name:
            if len(lst) != 0:
                raise Broken("data assigned to the virtual root")
            continue
        if name != out_name and name not in ni:
            if len(lst) != 0:
                raise Broken("data listed under a clone that does not exist", {"clone": repr(name)})
            continue
        for dp in lst:
            if dp.idx in seen:
                raise Broken("data point appears twice in the tree", {"idx": dp.idx, "a": repr(seen[dp.idx]), "b": repr(name)})
            seen[dp.idx] = name
    for idx in idxs:
        name = nir[idx]
        if name == root_name:
            if len(g[idx].data_points) != 0:
                raise Broken("virtual root payload holds data")
            continue
        listed = sorted(dp.idx for dp in data.get(name, []))
        if listed != sorted(g[idx].data_points):
            raise Broken("clone's data list and its payload's index set disagree",
                         {"clone": repr(name), "list": listed, "payload": sorted(g[idx].data_points)})
    labels = tree.labels
    if {k: v for k, v in labels.items()} != seen:
        raise Broken("labels view disagrees with the per-clone data lists")
    if expect_idxs is not None and sorted(seen.keys()) != sorted(expect_idxs):
        raise Broken("tree does not hold exactly the expected data points",
                     {"have": sorted(seen.keys()), "expected": sorted(expect_idxs)})
    n_clauses += 5
    # public views agree with the private structure
    names = [nir[i] for i in idxs if i != root_idx]
    if sorted(map(repr, tree.nodes)) != sorted(map(repr, names)):
        raise Broken("nodes view disagrees with the graph")
    if len(set(map(repr, names))) != len(names):
        raise Broken("clone names are not unique")
    if sorted(map(repr, tree.roots)) != sorted(repr(g[c].node_id) for c in g.successor_indices(root_idx)):
        raise Broken("roots view disagrees with the graph")
    for i in idxs:
        if i == root_idx:
            continue
        pred = g.predecessor_indices(i)
        if tree.get_parent(nir[i]) != nir[pred[0]]:
            raise Broken("get_parent disagrees with the graph", {"clone": repr(nir[i])})
    if tree.graph.num_nodes() != len(names):
        raise Broken("graph view (without virtual root) has the wrong number of nodes")
    if tree.get_number_of_nodes() != len(names):
        raise Broken("get_number_of_nodes disagrees with the graph")
    n_clauses += 6
    return n_clauses


def node_vectors(tree):
    """{clone name: (log_p, log_r)} plus the virtual root under its own name; arrays are views (do not modify)."""
    out = {}
    for idx in tree._graph.node_indices():
        nd = tree._graph[idx]
        out[nd.node_id] = (nd.log_p, nd.log_r)
    return out


def close(a, b, rel=1e-8, extra=0.0):
    a = np.asarray(a, dtype=float)
    b = np.asarray(b, dtype=float)
    if a.shape != b.shape:
        return False, float("inf")
    with np.errstate(invalid="ignore"):
        same_inf = (a == b)
        d = np.abs(a - b)
        tol = rel * (1.0 + np.maximum(np.abs(a), np.abs(b))) + extra
        ok = same_inf | (d <= tol)
    if np.all(ok):
        fin = d[np.isfinite(d)]
        return True, float(fin.max()) if fin.size else 0.0
    bad = d[~ok]
    bad = bad[np.isfinite(bad)]
    return False, float(bad.max()) if bad.size else float("inf")


class Window(object):
    """Lazy C02 underflow-window test for one tree: a deviation counts only on entries where the band of values a
    correct implementation may report (vlib.refmodel.IntervalMarginal) is narrower than 1e-9."""

    def __init__(self, forest, data_by_idx, shape):
        self.forest, self.shape = forest, shape
        self.values = {i: dp.value for i, dp in data_by_idx.items()}
        self.bands = None
        self.outside = 0

    def real(self, which, x, y, rel):
        """True iff x and y differ beyond tolerance on an entry inside the window.  which: clone index or 'root'."""
        from vlib.refmodel import IntervalMarginal

        if self.bands is None:
            self.bands = IntervalMarginal(self.shape).run(self.forest, self.values)
        LO, HI, rlo, rhi = self.bands
        lo, hi = (rlo, rhi) if which == "root" else (LO[which], HI[which])
        x = np.asarray(x, dtype=float)
        y = np.asarray(y, dtype=float)
        with np.errstate(invalid="ignore"):
            bad = ~((x == y) | (np.abs(x - y) <= rel * (1.0 + np.maximum(np.abs(x), np.abs(y)))))
            narrow = (hi - lo) <= 1e-9
        if np.any(bad & narrow):
            return True
        self.outside += 1
        return False


@contextlib.contextmanager
def unmemoised():
    """Within the block the tree code computes the children recursion and the pairwise convolution without its
    memoisation (the undecorated originals), so a tree built here is from scratch in the strict sense: nothing is
    reused from earlier calls in this process.  The caches themselves are left as they are."""
    import phyclone.tree.tree_node as tn
    import phyclone.tree.utils as tu

    saved = (tu._convolve_two_children, tu.compute_log_S, tn.compute_log_S)
    conv_plain = saved[0].__wrapped__
    s_orig = saved[1].__wrapped__

    def s_plain(children):
        return s_orig(np.array(children, order="C"))

    tu._convolve_two_children = conv_plain
    tu.compute_log_S = s_plain
    tn.compute_log_S = s_plain
    try:
        yield
    finally:
        tu._convolve_two_children, tu.compute_log_S, tn.compute_log_S = saved


def densities_inside_window(tree, width=1e-9):
    """True iff the tree's joint log-densities are determined by its shape and data to floating-point accuracy, i.e. the
    entries of the root vector they read (last grid entry, row log-sum) lie inside the underflow window of C02 - the
    band of values a correct floored implementation may report (vlib.refmodel.IntervalMarginal) is narrower than
    ``width`` there.  Outside it two correct evaluations (incremental / rebuilt, other summation order) may differ."""
    from scipy.special import logsumexp
    from vlib.refmodel import IntervalMarginal

    forest, _names = gen.tree_to_forest(tree)
    if forest.K == 0:
        return True
    values = {dp.idx: dp.value for dp in tree.data}
    _lo, _hi, rlo, rhi = IntervalMarginal(tree.grid_size).run(forest, values)
    return max(float(np.max(rhi[:, -1] - rlo[:, -1])),
               float(np.max(logsumexp(rhi, axis=1) - logsumexp(rlo, axis=1)))) <= width


def rebuild_equal(tree, data_by_idx, tree_dists, rel=1e-8, extra=0.0, stats=None):
    """C06 oracle: every clone's vectors, the root vector (if it has a child), both joint densities, ==/hash equal
    those of a tree freshly built bottom-up from the abstract form.  Returns max deviation; raises Broken.
    Deviations confined to entries outside the C02 underflow window are counted in stats, not reported."""
    forest, names = gen.tree_to_forest(tree)
    with unmemoised():
        fresh, fnames = gen.build_tree(forest, data_by_idx, grid_size=tree.grid_size)
        fresh.update()  # every vector recomputed bottom-up once more: the reference owes nothing to incremental refreshes
    a = node_vectors(tree)
    b = node_vectors(fresh)
    worst = 0.0
    win = Window(forest, data_by_idx, tree.grid_size)
    for i, name in enumerate(names):
        for k, which in ((0, "own likelihood"), (1, "subtree likelihood")):
            x, y = a[name][k], b[fnames[i]][k]
            ok, dev = close(x, y, rel, extra)
            if not ok and k == 1 and not win.real(i, x, y, rel):
                continue
            worst = max(worst, dev if np.isfinite(dev) else 0.0)
            if not ok:
                raise Broken("clone's cached %s vector differs from a from-scratch rebuild" % which,
                             {"clone": repr(name), "max_dev": dev, "clade": sorted(forest.clade(i))})
    if forest.K > 0:
        ok, dev = close(tree.data_log_likelihood, fresh.data_log_likelihood, rel, extra)
        if ok or win.real("root", tree.data_log_likelihood, fresh.data_log_likelihood, rel):
            worst = max(worst, dev if np.isfinite(dev) else 0.0)
            if not ok:
                raise Broken("virtual root's likelihood vector differs from a from-scratch rebuild (stale value on "
                             "the path to the root)", {"max_dev": dev})
    if win.outside == 0:
        for td in tree_dists:
            for fn in ("log_p", "log_p_one"):
                x = float(getattr(td, fn)(tree))
                y = float(getattr(td, fn)(fresh))
                ok, dev = close(x, y, rel, extra)
                if not ok:
                    raise Broken("%s differs from that of a from-scratch rebuild" % fn, {"edited": x, "fresh": y})
    elif stats is not None:
        stats["outside_window"] = stats.get("outside_window", 0) + 1
    if not (tree == fresh) or hash(tree) != hash(fresh):
        raise Broken("tree does not compare/hash equal to a fresh tree with the same clades and outliers")
    return worst


def digest(tree):
    """Structural + numerical digest used by the alias guard."""
    import hashlib

    h = hashlib.blake2b(digest_size=16)
    for idx in sorted(tree._graph.node_indices()):
        nd = tree._graph[idx]
        h.update(repr((idx, nd.node_id, sorted(nd.data_points))).encode())
        h.update(np.ascontiguousarray(nd.log_p).tobytes())
        h.update(np.ascontiguousarray(nd.log_r).tobytes())
    h.update(repr(sorted(tree._graph.edge_list())).encode())
    h.update(repr(sorted((repr(k), [dp.idx for dp in v]) for k, v in tree._data.items() if len(v) > 0)).encode())
    h.update(repr(sorted((repr(k), v) for k, v in tree._node_indices.items())).encode())
    h.update(repr(tree._last_node_added_to).encode())
    return h.hexdigest()
